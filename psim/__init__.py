"""psim - deterministic simulation with fault injection for openstack/placement.

See /verif/DESIGN.md.  Everything here runs the real placement service (from
/repo's working tree) in one process, under a seeded scheduler and fault
injector.
"""
