"""Seeded, state-aware request generator (swarm style).

Every request is either fully valid in the current (model) state or carries
exactly ONE reason for rejection.  Pools are small on purpose so that
capacity binds, names collide and generations go stale often.
"""
import copy

from psim import model as M


def puuid(i):
    return 'aaaaaaaa-aaaa-4aaa-8aaa-%012d' % i


def cuuid(i):
    return 'cccccccc-cccc-4ccc-8ccc-%012d' % i


def auuid(i):
    return 'a9a9a9a9-a9a9-4a9a-8a9a-%012d' % i


STD_RCS = ['VCPU', 'MEMORY_MB', 'DISK_GB']
CUSTOM_RCS = ['CUSTOM_RC_A', 'CUSTOM_RC_B']
STD_TRAITS = ['HW_CPU_X86_AVX', 'STORAGE_DISK_SSD',
              'MISC_SHARES_VIA_AGGREGATE']
CUSTOM_TRAITS = ['CUSTOM_TR_A', 'CUSTOM_TR_B']
RATIOS = [0.1, 0.5, 1.0, 1.0, 1.0, 1.3, 1.5, 2.0, 16.0]
TYPES = ['INSTANCE', 'MIGRATION', 'CUSTOM_T1']
ALL_VERSIONS = ['1.0', '1.1', '1.2', '1.4', '1.5', '1.6', '1.7', '1.8', '1.9',
                '1.11', '1.12', '1.13', '1.14', '1.18', '1.19', '1.20',
                '1.22', '1.23', '1.25', '1.26', '1.27', '1.28', '1.29',
                '1.30', '1.33', '1.34', '1.36', '1.37', '1.38', '1.39']


def vge(lo, hi=None):
    lo = lo or '1.0'
    out = [v for v in ALL_VERSIONS if M.ver(v) >= M.ver(lo)]
    if hi:
        out = [v for v in out if M.ver(v) <= M.ver(hi)]
    return out


DEFAULT_MIX = {
    'rp_create': 6, 'rp_update': 4, 'rp_delete': 2,
    'inv_put_all': 6, 'inv_post': 3, 'inv_put_one': 4, 'inv_delete_one': 2,
    'inv_delete_all': 1,
    'agg_put': 3, 'rpt_put': 4, 'rpt_delete': 1,
    'trait_put': 2, 'trait_delete': 1,
    'rc_post': 1, 'rc_put': 2, 'rc_delete': 1, 'rc_rename': 1,
    'alloc_put': 12, 'alloc_post': 6, 'alloc_delete': 2, 'reshape': 3,
    'read': 10,
}


ACCEPTS = ['text/plain', 'application/xml, text/html;q=0.5',
           'application/json', '*/*', 'text/plain, application/json;q=0.1',
           'application/*']


CONTENT_TYPES = ['text/plain', 'application/xml',
                 'application/x-www-form-urlencoded',
                 'application/json; charset=utf-8',
                 'application/json;charset=UTF-8']


FLOAT_TRAPS = [(12, 2, 0.3), (17, 7, 0.3), (24, 4, 0.3), (31, 1, 0.3),
               (43, 23, 0.1), (43, 33, 0.1), (41, 1, 0.3), (50, 0, 2.3),
               (52, 2, 2.3), (90, 0, 0.7), (100, 10, 0.7), (30, 0, 0.1)]


class Gen(object):

    def __init__(self, rng, n_providers=6, n_consumers=6, mix=None,
                 invalid_rate=0.3, versions=None, max_total=16):
        self.rng = rng
        self.P = [puuid(i) for i in range(n_providers)]
        self.C = [cuuid(i) for i in range(n_consumers)]
        self.A = [auuid(i) for i in range(3)]
        self.projects = ['proj-%d' % i for i in range(3)]
        self.users = ['user-%d' % i for i in range(3)]
        self.rcs = STD_RCS + CUSTOM_RCS[:rng.randrange(0, 3)]
        self.all_rcs = STD_RCS + CUSTOM_RCS
        self.trs = STD_TRAITS + CUSTOM_TRAITS
        self.mix = dict(mix or DEFAULT_MIX)
        self.invalid_rate = invalid_rate
        self.versions = versions
        self.max_total = max_total
        self.name_seq = 0
        self.seen_names = set()
        self.focus_p = None     # restrict provider choices (conc batches)
        # a tenth of the histories is keen on inventories whose min_unit
        # exceeds their max_unit
        self.p_odd_units = 0.4 if rng.random() < 0.1 else 0.02
        self.custom_traits = list(CUSTOM_TRAITS)
        if rng.random() < 0.2:
            # ... so is a name: a trait may be called what a class is called
            self.custom_traits.append('CUSTOM_RC_A')
            self.trs = self.trs + ['CUSTOM_RC_A']
        if rng.random() < 0.12:
            # ... and an aggregate may carry the uuid of a provider
            self.A[0] = self.P[0]
        if rng.random() < 0.25:
            # external ids are only unique per kind as well: a user may be
            # called what a project is called
            self.users[rng.randrange(3)] = self.projects[rng.randrange(3)]
        if rng.random() < 0.12 and self.P and self.C:
            # uuids are only unique per kind: a consumer may carry the uuid
            # of a provider
            self.C[rng.randrange(len(self.C))] = \
                self.P[rng.randrange(len(self.P))]

    # -- helpers -------------------------------------------------------------
    def pick(self, seq):
        seq = list(seq)
        return seq[self.rng.randrange(len(seq))]

    def ver(self, lo='1.0', hi=None):
        cands = vge(lo, hi)
        if self.versions:
            c2 = [v for v in cands if v in self.versions]
            if c2:
                cands = c2
        v = self.pick(cands)
        # the same version spelled differently: "latest", or no header at all
        if v == '1.39' and self.chance(0.12):
            return 'latest'
        if v == '1.0' and self.chance(0.3):
            return None
        return v

    def chance(self, p):
        return self.rng.random() < p

    def gen_for(self, m, u, stale=False):
        g = m.providers[u]['generation'] if u in m.providers else 0
        if stale:
            return g + self.pick([-1, 1, 2]) if g > 0 else g + 1
        return g

    def existing_p(self, m):
        if self.focus_p is not None:
            return [u for u in self.focus_p if u in m.providers]
        return [u for u in self.P if u in m.providers]

    def missing_p(self, m):
        return [u for u in self.P if u not in m.providers]

    accept_variants = False     # sequential histories only

    roomy = False   # candidate profiles: inventories that usually have room

    def gen_inventory(self, tight=True, v=None):
        if v is not None and M.ver(v) >= (1, 26) and self.chance(0.06):
            # legal from 1.26: an inventory with no capacity at all
            t = self.rng.randint(1, 6)
            return self.pick([{'total': t, 'reserved': t},
                              {'total': t, 'allocation_ratio': 0.0},
                              {'total': t, 'reserved': 0,
                               'allocation_ratio': 0.0, 'max_unit': t}])
        if self.chance(self.p_odd_units):
            # legal, and nothing can ever be allocated from it: the smallest
            # admissible amount exceeds the largest
            t = self.rng.randint(4, 16)
            hi = self.pick([1, 2, 2, 4])
            return {'total': t, 'min_unit': hi + self.pick([1, 2]),
                    'max_unit': hi, 'step_size': self.pick([1, 1, 2])}
        if self.chance(0.04):
            # products that floating point puts just beside an integer:
            # (total - reserved) * ratio and total * ratio - reserved * ratio
            # fall on different sides of it
            t, r, ratio = self.pick(FLOAT_TRAPS)
            inv = {'total': t, 'allocation_ratio': ratio}
            if r:
                inv['reserved'] = r
            return inv
        if self.chance(0.02):
            # the largest values the schema admits
            big = 2147483647
            return self.pick([{'total': big},
                              {'total': big, 'reserved': big - 3},
                              {'total': big, 'max_unit': big,
                               'allocation_ratio': 1.0},
                              {'total': big, 'step_size': big,
                               'max_unit': big}])
        total = self.rng.randint(1, self.max_total)
        if self.roomy:
            total = self.rng.randint(4, max(8, self.max_total * 2))
            inv = {'total': total}
            if self.chance(0.3):
                inv['reserved'] = self.rng.randint(0, total // 3)
            if self.chance(0.25):
                inv['max_unit'] = self.rng.randint(2, total)
            if self.chance(0.15):
                inv['step_size'] = 2
            if self.chance(0.1):
                inv['min_unit'] = 2
            if self.chance(0.4):
                inv['allocation_ratio'] = self.pick([0.5, 1.0, 1.5, 2.0,
                                                     16.0])
            return inv
        inv = {'total': total}
        if self.chance(0.5):
            inv['reserved'] = self.rng.randint(0, max(0, total - 1))
        if self.chance(0.3):
            inv['min_unit'] = self.rng.randint(1, 3)
        if self.chance(0.4):
            inv['max_unit'] = self.rng.randint(1, total)
        if self.chance(0.3):
            inv['step_size'] = self.rng.randint(1, 3)
        if self.chance(0.6):
            inv['allocation_ratio'] = self.pick(RATIOS)
        # a usable capacity is part of "valid": never a second, accidental
        # reason for rejection
        full = dict(M.INV_DEFAULTS)
        full.update(inv)
        if M.capacity(full) < 1:
            inv['allocation_ratio'] = 1.0
            inv.pop('reserved', None)
        return inv

    def bad_capacity(self):
        """reserved > total (always refused) or reserved == total (refused
        below 1.26 only)."""
        t = self.rng.randint(1, 6)
        if self.chance(0.3):
            # allocation_ratio 0 is schema-legal: capacity 0
            return {'total': t, 'allocation_ratio': 0.0}
        return {'total': t, 'reserved': t + self.pick([0, 0, 1])}

    # -- op constructors -------------------------------------------------------
    def next_op(self, m):
        kinds = list(self.mix)
        weights = [self.mix[k] for k in kinds]
        for _ in range(50):
            k = self.rng.choices(kinds, weights)[0]
            op = getattr(self, 'g_' + k)(m)
            if op is not None:
                op.setdefault('kind', k)
                if not op.get('defect') and \
                        self.chance(self.invalid_rate * 0.12):
                    self.schema_break(op)
                if self.accept_variants and not op.get('defect') and \
                        self.chance(0.012):
                    self.unencodable_break(op)
                if self.accept_variants and not op.get('defect') and \
                        self.chance({'reshape': 0.05, 'inv_put_all': 0.01}
                                    .get(op['kind'], 0)):
                    self.nan_break(op)
                if self.accept_variants and op.get('v') not in (
                        None, 'latest') and self.chance(0.03):
                    # the header may list versions for several services
                    op['h'] = {'openstack-api-version': self.pick([
                        'compute 2.53, placement %s', 'placement %s, compute '
                        '2.1', 'identity 3, placement %s,volume 3.0',
                        'PLACEMENT %s']) % op['v']}
                elif self.accept_variants and not op.get('defect') and \
                        self.chance(0.03):
                    # who is asking: without the admin or service role every
                    # route answers 403 (401 without a token) and does
                    # nothing - in particular nothing before it looks
                    probe = dict(op)
                    ok = (m.apply(probe) if op['m'] == 'GET' else
                          m.clone().apply(probe)).status < 400
                    if ok:
                        op['h'] = self.pick([
                            {'x-auth-token': 'bob:proj-0', 'x-roles': None},
                            {'x-auth-token': 'bob:proj-0', 'x-roles': None},
                            {'x-auth-token': None}])
                        op['defect'] = 'caller'
                elif self.accept_variants and op['m'] == 'GET' and \
                        self.chance(0.05):
                    # a client revalidating a cached copy, or asking for a
                    # part: the service knows no conditional or partial
                    # answers - what it sends is the current, whole document
                    op['h'] = self.pick([
                        {'if-modified-since': 'Tue, 01 Jan 2030 00:00:00 GMT'},
                        {'if-modified-since': 'Thu, 01 Jan 2026 00:00:00 GMT'},
                        {'if-none-match': '*'},
                        {'if-unmodified-since':
                         'Sat, 01 Jan 2022 00:00:00 GMT'},
                        {'range': 'bytes=0-9'}])
                elif self.accept_variants and self.chance(0.04):
                    # what the client says it accepts: read routes answer
                    # 406 when JSON is not acceptable, writes do not look
                    acc = self.pick(ACCEPTS)
                    if op['m'] == 'GET' and not M.json_acceptable(acc) and \
                            m.apply(dict(op)).status != 200:
                        # one reason for rejection per request: which of
                        # 404 and 406 wins is nobody's contract
                        acc = 'application/json'
                    op['h'] = {'accept': acc}
                elif self.accept_variants and op.get('b') is not None and \
                        not op.get('defect') and self.chance(0.03):
                    # ... and what it says it sends: a body that is not
                    # declared as JSON is refused (415) before it is read
                    ct = self.pick(CONTENT_TYPES)
                    if not ct.startswith('application/json') and \
                            m.clone().apply(dict(op)).status >= 400:
                        ct = 'application/json'
                    op['h'] = {'content-type': ct}
                return op
        return self.g_rp_create(m) or self.g_read(m)

    def nan_break(self, op):
        """allocation_ratio NaN in one inventory of the request."""
        b = op['b']
        if op['kind'] == 'inv_put_all':
            if not b['inventories']:
                return
            tgt = b['inventories'][self.pick(sorted(b['inventories']))]
        else:
            rps = [u for u in sorted(b['inventories'])
                   if b['inventories'][u]['inventories']]
            if not rps:
                return
            invs = b['inventories'][self.pick(rps)]['inventories']
            tgt = invs[self.pick(sorted(invs))]
        tgt['allocation_ratio'] = float('nan')
        op['defect'] = 'nan'

    def unencodable_break(self, op):
        """Text that is valid JSON and passes the schema but cannot be
        stored: a lone surrogate.  Whatever the answer, nothing may stay
        behind - in particular not the consumers created for earlier entries
        of the same request."""
        k = op['kind']
        b = op.get('b')
        bad = self.pick([u'p\ud800', u'\udfffx'])
        if k == 'alloc_put' and isinstance(b, dict) and 'project_id' in b:
            b[self.pick(['project_id', 'user_id'])] = bad
        elif k == 'alloc_post' and b:
            c = list(b)[-1]
            if 'project_id' not in b[c]:
                return
            b[c][self.pick(['project_id', 'user_id'])] = bad
        elif k == 'reshape' and b.get('allocations'):
            c = list(b['allocations'])[-1]
            b['allocations'][c][self.pick(['project_id', 'user_id'])] = bad
        elif k == 'rp_create':
            b['name'] = bad
        else:
            return
        op['defect'] = 'unencodable'

    def schema_break(self, op):
        """Turn an otherwise valid write into a schema violation (one reason
        for rejection: the document itself)."""
        k = op['kind']
        b = op.get('b')
        r = self.rng

        def break_alloc_body(body):
            a = body.get('allocations')
            choice = r.randrange(4)
            if choice == 0 and a:
                if isinstance(a, list):
                    res = a[r.randrange(len(a))]['resources']
                else:
                    res = a[self.pick(sorted(a))]['resources']
                res[self.pick(sorted(res))] = 0       # minimum is 1
            elif choice == 1 and 'user_id' in body:
                del body['user_id']
            elif choice == 2:
                body['bogus'] = 1                     # additionalProperties
            else:
                body['allocations'] = 'nope'
        if k in ('inv_put_all', 'inv_put_one', 'inv_post', 'reshape') \
                and r.random() < 0.35:
            # a ratio no inventory can have: negative, or beyond what a
            # float column holds (-1e400 and 1e400 are valid JSON and parse
            # to -inf / inf).  Refused by the schema that the inventory
            # routes and the reshaper share.
            bad = self.pick([float('-inf'), -1.0, -0.5, float('inf')])
            if k == 'inv_put_all':
                if not b['inventories']:
                    return
                tgt = b['inventories'][self.pick(sorted(b['inventories']))]
            elif k == 'reshape':
                rps = [u for u in sorted(b['inventories'])
                       if b['inventories'][u]['inventories']]
                if not rps:
                    return
                invs = b['inventories'][self.pick(rps)]['inventories']
                tgt = invs[self.pick(sorted(invs))]
            else:
                tgt = b
            if k in ('reshape', 'inv_put_all') and r.random() < 0.3:
                # the literal NaN: not standard JSON, but the parser takes
                # it and no schema bound catches it
                tgt['allocation_ratio'] = float('nan')
                op['defect'] = 'nan'
                return
            tgt['allocation_ratio'] = bad
            if bad == float('-inf') and r.random() < 0.5:
                # 0 * -inf is NaN, and nothing is smaller than NaN
                tgt['reserved'] = tgt['total']
            op['defect'] = 'schema'
            return
        if k == 'alloc_put':
            break_alloc_body(b)
        elif k == 'alloc_post':
            if not b:
                return
            # the n-th of m entries is malformed
            break_alloc_body(b[self.pick(sorted(b))])
        elif k == 'reshape':
            if b['allocations'] and r.random() < 0.5:
                break_alloc_body(b['allocations'][self.pick(
                    sorted(b['allocations']))])
            else:
                rp = self.pick(sorted(b['inventories']))
                b['inventories'][rp].pop('resource_provider_generation', None)
        elif k == 'inv_put_all':
            if b['inventories'] and r.random() < 0.6:
                rc = self.pick(sorted(b['inventories']))
                b['inventories'][rc]['total'] = 0     # minimum is 1
            else:
                b.pop('resource_provider_generation', None)
        elif k == 'inv_put_one':
            b['reserved'] = -1
        elif k == 'inv_post':
            b.pop('total', None)
        elif k == 'rpt_put':
            if r.random() < 0.5:
                b['traits'] = 'CUSTOM_TR_A'
            else:
                b.pop('resource_provider_generation', None)
        elif k == 'agg_put':
            if isinstance(b, dict):
                b['aggregates'] = list(b['aggregates']) + ['not-a-uuid']
            else:
                b.append('not-a-uuid')
        elif k == 'rp_create':
            b['name'] = ''
        else:
            return
        op['defect'] = 'schema'

    def g_rp_create(self, m):
        missing = self.missing_p(m)
        invalid = self.chance(self.invalid_rate) and self.existing_p(m)
        v = self.ver()
        self.name_seq += 1
        if invalid:
            d = self.pick(['dup_uuid', 'dup_name', 'bad_parent',
                           'self_parent'])
            if d in ('bad_parent', 'self_parent'):
                v = self.ver('1.14')
            ex = self.pick(self.existing_p(m))
            if d == 'dup_uuid':
                b = {'name': 'n%d' % self.name_seq, 'uuid': ex}
            elif d == 'dup_name':
                if not missing:
                    return None
                b = {'name': m.providers[ex]['name'],
                     'uuid': self.pick(missing)}
            elif d == 'bad_parent':
                if len(missing) < 2:
                    return None
                a, c = self.rng.sample(missing, 2)
                b = {'name': 'n%d' % self.name_seq, 'uuid': a,
                     'parent_provider_uuid': c}
            else:
                if not missing:
                    return None
                a = self.pick(missing)
                b = {'name': 'n%d' % self.name_seq, 'uuid': a,
                     'parent_provider_uuid': a}
            return {'m': 'POST', 'p': '/resource_providers', 'v': v, 'b': b,
                    'defect': d}
        if not missing:
            return None
        u = self.pick(missing)
        b = {'name': 'rp-%s-%d' % (u[-2:], self.name_seq), 'uuid': u}
        used = set(p_['name'] for p_ in m.providers.values())
        self.seen_names.update(used)
        free = sorted(self.seen_names - used)
        if free and self.chance(0.3):
            # a name (like a uuid) is free again once its provider is gone
            b['name'] = self.pick(free)
        if self.chance(0.08):
            # names are free text of up to 200 characters
            b['name'] = self.pick([
                u'rp-\u00e9\u4e2d\u6587 %d' % self.name_seq,
                ('rp-%d-' % self.name_seq).ljust(200, 'x'),
                'rp %d & co?=/#' % self.name_seq])
        if self.chance(0.1):
            # other spellings of the same uuid; the API stores the canonical
            b['uuid'] = self.pick([u.upper(), u.replace('-', '')])
        ex = self.existing_p(m)
        if ex and self.chance(0.55):
            v = self.ver('1.14')
            b['parent_provider_uuid'] = self.pick(ex)
        return {'m': 'POST', 'p': '/resource_providers', 'v': v, 'b': b}

    def g_rp_update(self, m):
        ex = self.existing_p(m)
        if not ex:
            return None
        u = self.pick(ex)
        p = m.providers[u]
        self.name_seq += 1
        name = p['name'] if self.chance(0.5) else 'ren-%d' % self.name_seq
        b = {'name': name}
        v = self.ver()
        d = None
        r = self.rng.random()
        if r < 0.08:
            miss = self.missing_p(m)
            if miss:
                return {'m': 'PUT', 'p': '/resource_providers/' +
                        self.pick(miss), 'v': v, 'b': b, 'defect': 'no_rp'}
        if r < 0.16 and len(ex) > 1:
            other = self.pick([x for x in ex if x != u])
            b['name'] = m.providers[other]['name']
            return {'m': 'PUT', 'p': '/resource_providers/' + u, 'v': v,
                    'b': b, 'defect': 'dup_name'}
        if r < 0.85:
            # parent manipulation
            v = self.ver('1.14')
            choice = self.rng.random()
            if choice < 0.15:
                b['parent_provider_uuid'] = None
                d = 'unparent'
            elif choice < 0.25 and self.missing_p(m):
                b['parent_provider_uuid'] = self.pick(self.missing_p(m))
                b['name'] = p['name']
                d = 'bad_parent'
            elif choice < 0.45:
                b['parent_provider_uuid'] = self.pick(m.subtree(u))
                if self.chance(0.3):
                    # another spelling of the same uuid is the same provider
                    b['parent_provider_uuid'] = \
                        b['parent_provider_uuid'].upper()
                b['name'] = p['name']
                d = 'loop'
            else:
                # (a batch focus restricts the provider written, not where
                # it may move)
                cands = [x for x in self.P if x in m.providers and
                         x not in m.subtree(u)]
                if not cands:
                    return None
                b['parent_provider_uuid'] = self.pick(cands)
                d = 'reparent'
            if d in ('unparent', 'reparent') and self.chance(0.6):
                v = self.ver('1.37')
        return {'m': 'PUT', 'p': '/resource_providers/' + u, 'v': v, 'b': b,
                'note': d}

    def g_rp_delete(self, m):
        ex = self.existing_p(m)
        if not ex:
            return None
        if self.chance(0.1) and self.missing_p(m):
            u = self.pick(self.missing_p(m))
        else:
            u = self.pick(ex)
        return {'m': 'DELETE', 'p': '/resource_providers/' + u,
                'v': self.ver()}

    def g_inv_put_all(self, m):
        ex = self.existing_p(m)
        if not ex:
            return None
        u = self.pick(ex)
        v = self.ver()
        invs = {}
        for rc in self.rng.sample(self.rcs, self.rng.randint(0, min(
                3, len(self.rcs)))):
            if m.class_exists(rc):
                invs[rc] = self.gen_inventory(v=v)
        # keep classes that are in use most of the time
        for (p, rc) in m.inventories:
            if p == u and m.used(u, rc) > 0 and rc not in invs and \
                    self.chance(0.8):
                inv = dict(m.inventories[(u, rc)])
                if self.chance(0.5):
                    inv['total'] = self.rng.randint(1, self.max_total)
                    inv['reserved'] = min(inv['reserved'], inv['total'] - 1)
                    inv['max_unit'] = min(inv['max_unit'], 2147483647)
                invs[rc] = inv
        b = {'resource_provider_generation': self.gen_for(m, u),
             'inventories': invs}
        d = None
        if self.chance(self.invalid_rate):
            d = self.pick(['stale', 'unknown_rc', 'bad_cap', 'no_rp'])
            if d == 'stale':
                b['resource_provider_generation'] = self.gen_for(m, u, True)
            elif d == 'unknown_rc':
                if any(m.used(u, rc) > 0 and rc not in invs
                       for (p, rc) in m.inventories if p == u):
                    return None
                invs['CUSTOM_NOPE'] = {'total': 4}
            elif d == 'bad_cap':
                if any(m.used(u, rc) > 0 and rc not in invs
                       for (p, rc) in m.inventories if p == u):
                    return None
                rc = self.pick(self.rcs)
                if not m.class_exists(rc):
                    return None
                invs[rc] = self.bad_capacity()
            else:
                if not self.missing_p(m):
                    return None
                u = self.pick(self.missing_p(m))
        return {'m': 'PUT', 'p': '/resource_providers/%s/inventories' % u,
                'v': v, 'b': b, 'defect': d}

    def g_inv_post(self, m):
        ex = self.existing_p(m)
        if not ex:
            return None
        u = self.pick(ex)
        rc = self.pick(self.rcs)
        v_post = self.ver()
        b = self.gen_inventory(v=v_post)
        b['resource_class'] = rc
        d = None
        if not m.class_exists(rc):
            d = 'unknown_rc'
        elif (u, rc) in m.inventories:
            d = 'exists'
        elif self.chance(self.invalid_rate * 0.5):
            d = 'bad_cap'
            b = self.bad_capacity()
            b['resource_class'] = rc
        return {'m': 'POST', 'p': '/resource_providers/%s/inventories' % u,
                'v': v_post, 'b': b, 'defect': d}

    def g_inv_put_one(self, m):
        have = sorted(k for k in m.inventories if k[0] in self.existing_p(m))
        if not have:
            return None
        u, rc = self.pick(have)
        v_one = self.ver()
        b = self.gen_inventory(v=v_one)
        b['resource_provider_generation'] = self.gen_for(m, u)
        d = None
        if self.chance(self.invalid_rate):
            d = self.pick(['stale', 'no_inv', 'bad_cap'])
            if d == 'stale':
                b['resource_provider_generation'] = self.gen_for(m, u, True)
            elif d == 'no_inv':
                free = [r for r in self.rcs if m.class_exists(r) and
                        (u, r) not in m.inventories]
                if not free:
                    return None
                rc = self.pick(free)
            else:
                b = self.bad_capacity()
                b['resource_provider_generation'] = self.gen_for(m, u)
        return {'m': 'PUT', 'p': '/resource_providers/%s/inventories/%s' %
                (u, rc), 'v': v_one, 'b': b, 'defect': d}

    def g_inv_delete_one(self, m):
        have = sorted(k for k in m.inventories if k[0] in self.existing_p(m))
        if not have:
            return None
        u, rc = self.pick(have)
        if self.chance(0.15):
            rc = self.pick(self.rcs)
        return {'m': 'DELETE', 'p': '/resource_providers/%s/inventories/%s' %
                (u, rc), 'v': self.ver()}

    def g_inv_delete_all(self, m):
        ex = self.existing_p(m)
        if not ex:
            return None
        return {'m': 'DELETE', 'p': '/resource_providers/%s/inventories' %
                self.pick(ex), 'v': self.ver('1.5' if self.chance(0.9)
                                              else '1.0')}

    def g_agg_put(self, m):
        ex = self.existing_p(m)
        if not ex:
            return None
        u = self.pick(ex)
        aggs = self.rng.sample(self.A, self.rng.randint(0, len(self.A)))
        v = self.ver('1.1')
        d = None
        if M.ver(v) >= (1, 19):
            b = {'aggregates': aggs,
                 'resource_provider_generation': self.gen_for(m, u)}
            if self.chance(self.invalid_rate):
                d = 'stale'
                b['resource_provider_generation'] = self.gen_for(m, u, True)
        else:
            b = aggs
        return {'m': 'PUT', 'p': '/resource_providers/%s/aggregates' % u,
                'v': v, 'b': b, 'defect': d}

    def g_rpt_put(self, m):
        ex = self.existing_p(m)
        if not ex:
            return None
        u = self.pick(ex)
        avail = [t for t in self.trs if m.trait_exists(t)]
        ts = self.rng.sample(avail, self.rng.randint(0, min(3, len(avail))))
        if self.chance(0.2):
            ts = sorted(m.traits[u])      # deliberate no-op
        b = {'traits': ts, 'resource_provider_generation': self.gen_for(m, u)}
        d = None
        if self.chance(self.invalid_rate):
            d = self.pick(['stale', 'unknown_trait'])
            if d == 'stale':
                b['resource_provider_generation'] = self.gen_for(m, u, True)
            else:
                b['traits'] = ts + ['CUSTOM_NO_SUCH_TRAIT']
        return {'m': 'PUT', 'p': '/resource_providers/%s/traits' % u,
                'v': self.ver('1.6'), 'b': b, 'defect': d}

    def g_rpt_delete(self, m):
        ex = self.existing_p(m)
        if not ex:
            return None
        return {'m': 'DELETE', 'p': '/resource_providers/%s/traits' %
                self.pick(ex), 'v': self.ver('1.6')}

    def g_trait_put(self, m):
        name = self.pick(self.custom_traits + ['CUSTOM_TR_C'])
        if self.chance(0.15):
            name = self.pick(['HW_CPU_X86_AVX', 'CUSTOM_lower', 'NOPREFIX',
                              'CUSTOM_' + 'A' * 249])
        return {'m': 'PUT', 'p': '/traits/' + name, 'v': self.ver('1.6')}

    def g_trait_delete(self, m):
        name = self.pick(self.custom_traits + ['CUSTOM_TR_C', 'HW_CPU_X86_AVX'])
        return {'m': 'DELETE', 'p': '/traits/' + name, 'v': self.ver('1.6')}

    def g_rc_post(self, m):
        name = self.pick(CUSTOM_RCS + ['CUSTOM_RC_C'])
        if self.chance(0.15):
            name = self.pick(['VCPU', 'CUSTOM_lower', 'CUSTOM_' + 'B' * 249])
        return {'m': 'POST', 'p': '/resource_classes', 'v': self.ver('1.2'),
                'b': {'name': name}}

    def g_rc_put(self, m):
        name = self.pick(CUSTOM_RCS + ['CUSTOM_RC_C'])
        if self.chance(0.1):
            name = self.pick(['VCPU', 'CUSTOM_lower'])
        return {'m': 'PUT', 'p': '/resource_classes/' + name,
                'v': self.ver('1.7')}

    def g_rc_rename(self, m):
        old = self.pick(CUSTOM_RCS + ['CUSTOM_RC_C', 'VCPU'])
        new = self.pick(CUSTOM_RCS + ['CUSTOM_RC_C', 'CUSTOM_RC_D'])
        if old == new:
            return None
        return {'m': 'PUT', 'p': '/resource_classes/' + old,
                'v': self.ver('1.2', '1.6'), 'b': {'name': new}}

    def g_rc_delete(self, m):
        name = self.pick(CUSTOM_RCS + ['CUSTOM_RC_C', 'VCPU', 'CUSTOM_RC_D'])
        return {'m': 'DELETE', 'p': '/resource_classes/' + name,
                'v': self.ver('1.2')}

    # -- allocations -----------------------------------------------------------
    def _room(self, m, rp, rc, excluding, inventories=None, extra=None):
        """Largest valid amount c can still take on (rp, rc), or 0."""
        invs = m.inventories if inventories is None else inventories
        inv = invs.get((rp, rc))
        if inv is None:
            return 0
        used = 0
        for c, a in m.allocations.items():
            if c in excluding:
                continue
            used += a.get(rp, {}).get(rc, 0)
        if extra:
            used += extra.get((rp, rc), 0)
        cap = (inv['total'] - inv['reserved']) * inv['allocation_ratio']
        room = int(cap - used)
        room = min(room, inv['max_unit'])
        room -= room % inv['step_size']
        if room < inv['min_unit'] or room <= 0:
            return 0
        return room

    def _valid_amount(self, inv, room):
        lo = inv['min_unit']
        step = inv['step_size']
        cands = [n for n in range(1, min(room, 8) + 1)
                 if n >= lo and n % step == 0]
        if not cands:
            cands = [room]
        elif room > 1000 and self.chance(0.3) or self.chance(0.12):
            # everything that is left, however much
            top = min(room, inv['max_unit'])
            top -= top % step
            if top >= lo and top > 0:
                return top
        return self.pick(cands)

    def spanning_alloc(self, m, providers, excluding):
        """A valid allocation with one class on EACH of the providers."""
        out = {}
        extra = {}
        for rp in providers:
            pairs = sorted(k for k in m.inventories if k[0] == rp)
            self.rng.shuffle(pairs)
            for (_, rc) in pairs:
                room = self._room(m, rp, rc, excluding, None, extra)
                if room > 0:
                    n = self._valid_amount(m.inventories[(rp, rc)], room)
                    out[rp] = {rc: n}
                    extra[(rp, rc)] = n
                    break
            if rp not in out:
                return None
        return out

    def _valid_alloc(self, m, excluding, inventories=None, extra=None,
                     max_rp=2):
        invs = m.inventories if inventories is None else inventories
        pairs = [k for k in invs if k[0] in m.providers]
        if self.focus_p is not None:
            fp = [k for k in pairs if k[0] in self.focus_p]
            if fp:
                pairs = fp
        pairs.sort()
        self.rng.shuffle(pairs)
        out = {}
        extra = dict(extra or {})
        for (rp, rc) in pairs:
            if len(out) >= max_rp and rp not in out:
                continue
            room = self._room(m, rp, rc, excluding, invs, extra)
            if room <= 0:
                continue
            n = self._valid_amount(invs[(rp, rc)], room)
            out.setdefault(rp, {})[rc] = n
            extra[(rp, rc)] = extra.get((rp, rc), 0) + n
            if self.chance(0.5):
                break
        return out, extra

    def _alloc_body(self, v, alloc, c, m, cg='right', clear=False):
        vv = M.ver(v)
        if vv < (1, 12):
            b = {'allocations': [
                {'resource_provider': {'uuid': rp}, 'resources': dict(res)}
                for rp, res in alloc.items()]}
            if alloc and self.chance(0.15):
                # the list form may name a provider twice: the later entry
                # replaces the earlier one entirely (the handler keys the
                # entries by provider before looking at them)
                rp = self.pick(sorted(alloc))
                idx = [i for i, e in enumerate(b['allocations'])
                       if e['resource_provider']['uuid'] == rp][0]
                ghost = {rc: n + self.pick([1, 2, 7, 1000])
                         for rc, n in alloc[rp].items()}
                if self.chance(0.3):
                    ghost[self.pick(self.all_rcs)] = 1
                b['allocations'].insert(
                    self.rng.randrange(0, idx + 1),
                    {'resource_provider': {'uuid': rp}, 'resources': ghost})
        else:
            b = {'allocations': {rp: {'resources': dict(res)}
                                 for rp, res in alloc.items()}}
            if alloc and self.chance(0.1):
                # what GET /allocations/{c} returns may be sent back as it
                # is: the per-provider generation is accepted and ignored
                for rp in b['allocations']:
                    if self.chance(0.7):
                        cur = m.providers.get(rp, {}).get('generation', 0)
                        b['allocations'][rp]['generation'] = self.pick(
                            [cur, cur, max(0, cur - 1), cur + 1, 0])
        if vv >= (1, 8):
            cur = m.consumers.get(c)
            if cur and self.chance(0.7):
                b['project_id'] = cur['project']
                b['user_id'] = cur['user']
            else:
                b['project_id'] = self.pick(self.projects)
                b['user_id'] = self.pick(self.users)
        if vv >= (1, 28):
            cur = m.consumers.get(c)
            have = None if cur is None else cur['generation']
            if cg == 'right':
                b['consumer_generation'] = have
            else:
                b['consumer_generation'] = self.pick(
                    [x for x in (None, 0, 1, (have or 0) + 1,
                                 (have or 1) - 1, 7) if x != have])
        if vv >= (1, 38):
            cur = m.consumers.get(c)
            if cur and cur['type'] and self.chance(0.7):
                b['consumer_type'] = cur['type']
            else:
                b['consumer_type'] = self.pick(TYPES)
        return b

    def _has_odd_units(self, m):
        return any(inv['min_unit'] > inv['max_unit'] and rp in m.providers
                   for (rp, rc), inv in m.inventories.items())

    def _inject_alloc_defect(self, m, alloc, d, excluding):
        """Mutate a valid allocation dict with one defect."""
        if d == 'unknown_rp':
            miss = self.missing_p(m)
            if not miss:
                return False
            alloc[self.pick(miss)] = {'VCPU': 1}
        elif d == 'unknown_rc':
            if not alloc:
                return False
            alloc[self.pick(alloc)]['CUSTOM_NOPE'] = 1
        elif d == 'no_inventory':
            cands = [(rp, rc) for rp in self.existing_p(m)
                     for rc in self.rcs if m.class_exists(rc) and
                     (rp, rc) not in m.inventories and
                     rc not in alloc.get(rp, {})]
            if not cands:
                return False
            rp, rc = self.pick(cands)
            alloc.setdefault(rp, {})[rc] = 1
        elif d == 'zero_room':
            # an inventory that has no room at all (full, or capacity 0
            # because reserved == total or allocation_ratio == 0): the
            # smallest amount the unit constraints allow must be refused
            cands = []
            for (rp, rc), inv in sorted(m.inventories.items()):
                if rp not in m.providers or rc in alloc.get(rp, {}):
                    continue
                if self._room(m, rp, rc, excluding) > 0:
                    continue
                n = -(-inv['min_unit'] // inv['step_size']) * \
                    inv['step_size']
                if n <= inv['max_unit']:
                    cands.append((rp, rc, n))
            if not cands:
                return False
            rp, rc, n = self.pick(cands)
            alloc.setdefault(rp, {})[rc] = n
        elif d == 'unit':
            cands = []
            for rp, res in alloc.items():
                for rc in res:
                    inv = m.inventories[(rp, rc)]
                    if inv['min_unit'] > 1:
                        cands.append((rp, rc, inv['min_unit'] - 1))
                    if inv['step_size'] > 1:
                        cands.append((rp, rc, inv['step_size'] + 1
                                      if (inv['step_size'] + 1) %
                                      inv['step_size'] else 1))
                    if inv['max_unit'] < 1000:
                        cands.append((rp, rc, inv['max_unit'] + 1))
            # an inventory whose min_unit exceeds its max_unit admits no
            # amount at all - not even exactly max_unit (or min_unit)
            odd = []
            for (rp, rc), inv in sorted(m.inventories.items()):
                if rp in m.providers and rc not in alloc.get(rp, {}) and \
                        inv['min_unit'] > inv['max_unit'] >= 1:
                    # (capacity left, whatever the unit constraints say)
                    room = int(M.capacity(inv)) - sum(
                        a.get(rp, {}).get(rc, 0)
                        for c_, a in m.allocations.items()
                        if c_ not in excluding)
                    for n in (inv['max_unit'], inv['min_unit']):
                        if n <= room and n % inv['step_size'] == 0:
                            odd.append((rp, rc, n))
            if odd and (not cands or self.chance(0.8)):
                cands = odd
            if not cands:
                return False
            rp, rc, n = self.pick(cands)
            if n < 1:
                return False
            alloc.setdefault(rp, {})[rc] = n
        elif d == 'over':
            if not alloc:
                return False
            rp = self.pick(alloc)
            rc = self.pick(alloc[rp])
            inv = m.inventories[(rp, rc)]
            used = sum(a.get(rp, {}).get(rc, 0)
                       for c, a in m.allocations.items()
                       if c not in excluding)
            cap = (inv['total'] - inv['reserved']) * inv['allocation_ratio']
            n = int(cap - used) + 1
            # respect the unit constraints so capacity is the only defect
            n = max(n, inv['min_unit'])
            n = -(-n // inv['step_size']) * inv['step_size']
            if n > inv['max_unit'] or n < 1:
                return False
            alloc[rp][rc] = n
        return True

    def g_alloc_put(self, m, force_version=None):
        c = self.pick(self.C)
        v = force_version or self.ver()
        vv = M.ver(v)
        exists = c in m.consumers
        clear = vv >= (1, 28) and self.chance(0.15)
        same_again = False
        if clear:
            alloc = {}
        elif self.chance(0.1) and m.allocations:
            # a client writing back exactly what a consumer holds (to change
            # the project, user or type, or after healing): checked like any
            # other write - the inventory may have changed under it
            c = self.pick(sorted(m.allocations))
            exists = True
            alloc = {rp: dict(res) for rp, res in m.allocations[c].items()}
            same_again = True
        else:
            alloc, _ = self._valid_alloc(m, {c})
            if not alloc:
                return None
        d = None
        cg = 'right'
        keen = (self.p_odd_units > 0.1 and not clear and not same_again and
                self._has_odd_units(m) and self.chance(0.5))
        if (keen or self.chance(self.invalid_rate)) and not same_again:
            choices = ['unknown_rp', 'unknown_rc', 'no_inventory', 'unit',
                       'over', 'zero_room']
            if vv >= (1, 28):
                choices += ['stale_cg', 'stale_cg']
            if self._has_odd_units(m):
                choices += ['unit'] * 5
            d = 'unit' if keen else self.pick(choices)
            if d == 'stale_cg':
                cg = 'wrong'
            elif clear or not self._inject_alloc_defect(m, alloc, d, {c}):
                d = None
        b = self._alloc_body(v, alloc, c, m, cg)
        cpath = c
        if self.chance(0.08):
            cpath = self.pick([c.upper(), c.replace('-', '')])
        return {'m': 'PUT', 'p': '/allocations/' + cpath, 'v': v, 'b': b,
                'defect': d, 'consumers': [c], 'exists': exists}

    def g_alloc_post(self, m):
        v = self.ver('1.13')
        vv = M.ver(v)
        n = self.rng.randint(1, min(3, len(self.C)))
        cs = self.rng.sample(self.C, n)
        body = {}
        extra = {}
        excluding = set(cs)
        keen = (self.p_odd_units > 0.1 and self._has_odd_units(m) and
                self.chance(0.5))
        bad_at = self.rng.randrange(n) if keen or self.chance(
            self.invalid_rate) else None
        d = None
        # "same pair" mode: every consumer of the request lands on ONE
        # (provider, class); with the 'over' defect the request sits exactly
        # one unit over the edge, whichever entry carries the excess
        same_pair = None
        if n >= 2 and self.chance(0.35):
            cands = [k for k in sorted(m.inventories)
                     if k[0] in m.providers and
                     self._room(m, k[0], k[1], excluding) >= n]
            if cands:
                same_pair = self.pick(cands)
        for i, c in enumerate(cs):
            clear = self.chance(0.15) and same_pair is None
            if clear:
                alloc = {}
            elif same_pair is not None:
                rp_, rc_ = same_pair
                room = self._room(m, rp_, rc_, excluding, None, extra)
                left = n - i - 1
                inv_ = m.inventories[same_pair]
                amt = None
                st_ = inv_['step_size']
                first = -(-max(inv_['min_unit'], 1) // st_) * st_
                top = min(max(1, room - left), inv_['max_unit'])
                # (totals go up to 2**31 - 1: look at a few multiples only)
                for cand_n in range(first, min(top, first + 12 * st_) + 1,
                                    st_):
                    amt = cand_n
                    if self.chance(0.5):
                        break
                if amt is None or room < amt:
                    alloc = {}
                    clear = True
                else:
                    alloc = {rp_: {rc_: amt}}
                    extra[same_pair] = extra.get(same_pair, 0) + amt
            else:
                alloc, extra = self._valid_alloc(m, excluding, extra=extra)
                if not alloc:
                    clear = True
            cg = 'right'
            if bad_at == i:
                choices = ['unknown_rp', 'unknown_rc', 'no_inventory',
                           'unit', 'over', 'zero_room']
                if vv >= (1, 28):
                    choices += ['stale_cg', 'stale_cg']
                if self._has_odd_units(m):
                    choices += ['unit'] * 5
                d = 'unit' if keen else self.pick(choices)
                if d == 'stale_cg':
                    cg = 'wrong'
                elif d == 'over':
                    # over capacity must account for co-submitted entries
                    if not alloc:
                        d = None
                    else:
                        rp = self.pick(alloc)
                        rc = self.pick(alloc[rp])
                        inv = m.inventories[(rp, rc)]
                        used = sum(a.get(rp, {}).get(rc, 0)
                                   for cc, a in m.allocations.items()
                                   if cc not in excluding)
                        used += extra.get((rp, rc), 0) - alloc[rp][rc]
                        cap = ((inv['total'] - inv['reserved']) *
                               inv['allocation_ratio'])
                        nn = max(int(cap - used) + 1, inv['min_unit'])
                        nn = -(-nn // inv['step_size']) * inv['step_size']
                        if nn > inv['max_unit']:
                            d = None
                        else:
                            extra[(rp, rc)] += nn - alloc[rp][rc]
                            alloc[rp][rc] = nn
                elif not alloc or not self._inject_alloc_defect(
                        m, alloc, d, excluding):
                    d = None
            body[c] = self._alloc_body(v, alloc, c, m, cg)
        if d is None and bad_at is not None:
            bad_at = None
        return {'m': 'POST', 'p': '/allocations', 'v': v, 'b': body,
                'defect': d, 'bad_at': bad_at, 'consumers': cs}

    def g_alloc_delete(self, m):
        c = self.pick(self.C)
        return {'m': 'DELETE', 'p': '/allocations/' + c, 'v': self.ver(),
                'consumers': [c]}

    def g_reshape(self, m):
        ex = self.existing_p(m)
        if not ex:
            return None
        v = self.ver('1.30')
        k = self.rng.randint(1, min(2, len(ex)))
        rps = self.rng.sample(ex, k)
        invs = {}
        new_inv = dict(m.inventories)
        # "drain" mode: a provider gives up its whole inventory (the classic
        # move-everything-away reshape); its consumers are cleared or
        # re-placed elsewhere
        drain = set()
        if self.chance(0.3):
            with_inv = [rp for rp in rps
                        if any(p == rp for (p, _rc) in m.inventories)]
            if with_inv:
                drain.add(self.pick(with_inv))
        for rp in rps:
            cur = {rc: dict(i) for (p, rc), i in m.inventories.items()
                   if p == rp}
            if rp in drain:
                cur = {}
            # move / drop / add classes
            for rc in list(cur):
                if self.chance(0.25):
                    del cur[rc]
            for rc in self.rcs:
                if rp not in drain and rc not in cur and \
                        m.class_exists(rc) and self.chance(0.3):
                    cur[rc] = M.Model._inv_full(m, self.gen_inventory())
            for key in [key for key in new_inv if key[0] == rp]:
                del new_inv[key]
            for rc, i in cur.items():
                new_inv[(rp, rc)] = M.Model._inv_full(m, i)
            # optional fields that carry their documented default are often
            # left out, as real clients do
            emit = {}
            for rc, i in cur.items():
                e = dict(i)
                for f, dv in M.INV_DEFAULTS.items():
                    if e.get(f) == dv and self.chance(0.6):
                        del e[f]
                emit[rc] = e
            invs[rp] = {'resource_provider_generation': self.gen_for(m, rp),
                        'inventories': emit}
        # consumers touching those providers must be re-stated
        cs = [c for c, a in m.allocations.items()
              if any(rp in a for rp in rps)]
        extra_cs = [c for c in self.C if c not in cs]
        if extra_cs and self.chance(0.3):
            cs.append(self.pick(extra_cs))
        body_allocs = {}
        extra = {}
        excluding = set(cs)
        ok = True
        for c in cs:
            alloc, extra = self._valid_alloc(m, excluding,
                                             inventories=new_inv, extra=extra)
            if not alloc and c not in m.consumers:
                continue
            body_allocs[c] = self._alloc_body(v, alloc, c, m, 'right')
        d = None
        if self.chance(self.invalid_rate):
            d = self.pick(['stale', 'stale_cg', 'unknown_rp_inv', 'inuse'])
            if d == 'stale':
                rp = self.pick(rps)
                invs[rp]['resource_provider_generation'] = \
                    self.gen_for(m, rp, True)
            elif d == 'stale_cg':
                if not body_allocs:
                    d = None
                else:
                    c = self.pick(sorted(body_allocs))
                    have = m.consumers.get(c, {}).get('generation')
                    body_allocs[c]['consumer_generation'] = \
                        (have or 0) + 3
            elif d == 'unknown_rp_inv':
                miss = self.missing_p(m)
                if not miss:
                    d = None
                else:
                    invs[self.pick(miss)] = {
                        'resource_provider_generation': 0,
                        'inventories': {'VCPU': {'total': 4}}}
            elif d == 'inuse':
                # drop a class some un-named consumer still uses
                cands = [(rp, rc) for (rp, rc) in m.inventories
                         if rp in rps and m.used(rp, rc) > 0]
                if not cands:
                    d = None
                else:
                    rp, rc = self.pick(cands)
                    invs[rp]['inventories'].pop(rc, None)
                    # un-name every consumer on it so that the reason is
                    # exactly "inventory in use"
                    for c in list(body_allocs):
                        if rp in m.allocations.get(c, {}) and \
                                rc in m.allocations[c][rp]:
                            del body_allocs[c]
                    # the remaining named consumers must still fit
                    new_inv.pop((rp, rc), None)
                    for c, bb in body_allocs.items():
                        for prp, dd in bb['allocations'].items():
                            if prp == rp and rc in dd['resources']:
                                ok = False
        if not ok:
            return None
        b = {'inventories': invs, 'allocations': body_allocs}
        return {'m': 'POST', 'p': '/reshaper', 'v': v, 'b': b, 'defect': d,
                'consumers': sorted(body_allocs)}

    # -- reads -------------------------------------------------------------------
    def g_read(self, m):
        ex = self.existing_p(m) or self.P[:1]
        u = self.pick(ex if self.chance(0.9) else self.P)
        c = self.pick(self.C)
        r = self.rng.randrange(18)
        if r >= 16:
            r = 9       # project/user/type usage totals get extra weight
        if r == 0:
            return {'m': 'GET', 'p': '/resource_providers/' + u,
                    'v': self.ver()}
        if r == 1:
            return {'m': 'GET', 'p': '/resource_providers/%s/inventories' % u,
                    'v': self.ver()}
        if r == 2:
            rc = self.pick(self.rcs)
            return {'m': 'GET', 'p': '/resource_providers/%s/inventories/%s'
                    % (u, rc), 'v': self.ver()}
        if r == 3:
            return {'m': 'GET', 'p': '/resource_providers/%s/traits' % u,
                    'v': self.ver('1.6')}
        if r == 4:
            return {'m': 'GET', 'p': '/resource_providers/%s/aggregates' % u,
                    'v': self.ver('1.1')}
        if r == 5:
            return {'m': 'GET', 'p': '/resource_providers/%s/usages' % u,
                    'v': self.ver()}
        if r == 6:
            return {'m': 'GET', 'p': '/resource_providers/%s/allocations' % u,
                    'v': self.ver()}
        if r in (7, 8):
            return {'m': 'GET', 'p': '/allocations/' + c, 'v': self.ver()}
        if r == 9:
            q = 'project_id=' + self.pick(self.projects + [
                m.incomplete_project])
            if self.chance(0.4):
                q += '&user_id=' + self.pick(self.users)
            v = self.ver('1.9')
            if self.chance(0.4):
                v = self.ver('1.38')
            if M.ver(v) >= (1, 38) and self.chance(0.6):
                q += '&consumer_type=' + self.pick(
                    TYPES + ['all', 'unknown'])
            return {'m': 'GET', 'p': '/usages?' + q, 'v': v}
        if r == 10:
            return {'m': 'GET', 'p': '/resource_providers', 'v': self.ver()}
        if r == 11:
            return {'m': 'GET', 'p': '/resource_providers?in_tree=' + u,
                    'v': self.ver('1.14')}
        if r == 12:
            name = (m.providers[u]['name'] if u in m.providers else 'zz')
            from urllib.parse import quote
            return {'m': 'GET', 'p': '/resource_providers?name=' +
                    quote(name, safe=''), 'v': self.ver()}
        if r == 13:
            q = self.pick(['', '?name=startswith:CUSTOM_',
                           '?name=in:CUSTOM_TR_A,HW_CPU_X86_AVX',
                           '?associated=true',
                           '?name=startswith:CUSTOM&associated=false'])
            return {'m': 'GET', 'p': '/traits' + q, 'v': self.ver('1.6')}
        if r == 14 and self.chance(0.5):
            if self.chance(0.5):
                ts = self.rng.sample(self.trs, self.pick([1, 1, 2]))
                return {'m': 'GET', 'p': '/resource_providers?required=' +
                        ','.join(ts), 'v': self.ver('1.18')}
            ags = self.rng.sample(self.A, self.pick([1, 2]))
            return {'m': 'GET', 'p': '/resource_providers?member_of=' + (
                ags[0] if len(ags) == 1 else 'in:' + ','.join(ags)),
                'v': self.ver('1.3')}
        if r == 14:
            return {'m': 'GET', 'p': '/resource_classes',
                    'v': self.ver('1.2')}
        return {'m': 'GET', 'p': '/resource_classes/' +
                self.pick(self.all_rcs), 'v': self.ver('1.2')}


def op_brief(op):
    """Compact, JSON-friendly rendering of an op for samples/replays."""
    out = {'m': op['m'], 'p': op['p'], 'v': op.get('v')}
    if op.get('b') is not None:
        out['b'] = copy.deepcopy(op['b'])
    if op.get('defect') in ('schema', 'unencodable', 'nan'):
        out['defect'] = op['defect']
    if op.get('h'):
        out['h'] = dict(op['h'])
    if op.get('w'):
        out['w'] = 1        # served by the second worker process
    return out
