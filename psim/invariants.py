"""Invariants over a natural dump (see dump.natural)."""
import os_resource_classes as orc
import os_traits

REL_TOL = 1e-9


def capacity_of(inv):
    total, reserved, mn, mx, step, ratio = inv
    return (total - reserved) * ratio


def usage_map(nat):
    used = {}
    for (c, rp, rc, n) in nat['allocations']:
        used[(rp, rc)] = used.get((rp, rc), 0) + n
    return used


def overcommitted(nat):
    """{(rp, rc): (used, capacity)} for every over-committed pair."""
    out = {}
    for k, n in usage_map(nat).items():
        inv = nat['inventories'].get(k)
        if inv is None:
            continue
        cap = capacity_of(inv)
        if n > cap * (1 + REL_TOL) + REL_TOL:
            out[k] = (n, cap)
    return out


def inv_capacity_for(nat, placed):
    """C01 for the pairs on which an accepted request placed amounts.

    placed: list of (consumer, rp, rc, amount)."""
    bad = []
    used = usage_map(nat)
    for (c, rp, rc, n) in placed:
        inv = nat['inventories'].get((rp, rc))
        if inv is None:
            bad.append('no inventory of %s on %s for accepted amount %d' %
                       (rc, rp, n))
            continue
        total, reserved, mn, mx, step, ratio = inv
        if n < mn or n > mx or n % step != 0:
            bad.append('amount %d of %s on %s violates min/max/step %s' %
                       (n, rc, rp, (mn, mx, step)))
        cap = capacity_of(inv)
        u = used.get((rp, rc), 0)
        if u > cap * (1 + REL_TOL) + REL_TOL:
            bad.append('%s on %s over-committed by an allocation write: '
                       'used %d > capacity %r' % (rc, rp, u, cap))
    return bad


def inv_refs(nat):
    """C08: nothing dangles."""
    bad = []
    prov = nat['providers']
    classes = set(nat['classes'])
    for (rp, rc) in nat['inventories']:
        if rp not in prov:
            bad.append('inventory on missing provider %s' % rp)
        if rc not in classes:
            bad.append('inventory of missing class %s' % rc)
    for k in nat['inv_dups']:
        bad.append('duplicate inventory rows %r' % (k,))
    for (c, rp, rc, n) in nat['allocations']:
        if rp not in prov:
            bad.append('allocation on missing provider %s' % rp)
        if (rp, rc) not in nat['inventories']:
            bad.append('allocation of %s on %s without inventory' % (rc, rp))
        if c not in nat['consumers']:
            bad.append('allocation of unrecorded consumer %s' % c)
        if n <= 0:
            bad.append('allocation with non-positive amount %r' % n)
    tnames = set(nat['trait_names'])
    for (rp, t) in nat['traits']:
        if rp not in prov:
            bad.append('trait association on missing provider %s' % rp)
        if t not in tnames:
            bad.append('association with missing trait %s' % t)
    aggs = set(nat['aggregate_uuids'])
    for (rp, a) in nat['aggregates']:
        if rp not in prov:
            bad.append('aggregate association on missing provider %s' % rp)
        if a not in aggs:
            bad.append('association with missing aggregate %s' % a)
    for u, c in nat['consumers'].items():
        if str(c['project']).startswith('?pj'):
            bad.append('consumer %s refers to missing project' % u)
        if str(c['user']).startswith('?us'):
            bad.append('consumer %s refers to missing user' % u)
        if c['type'] is not None and str(c['type']).startswith('?ct'):
            bad.append('consumer %s refers to missing type' % u)
    keys = [(c, rp, rc) for (c, rp, rc, n) in nat['allocations']]
    if len(keys) != len(set(keys)):
        bad.append('duplicate allocation rows for one '
                   '(consumer, provider, class)')
    return bad


def inv_forest(nat):
    """C09: parent links form a forest, roots are right."""
    bad = []
    prov = nat['providers']
    for u, p in prov.items():
        if p['parent'] is not None and p['parent'] not in prov:
            bad.append('provider %s has missing parent %s' % (u, p['parent']))
            continue
        if p['root'] is None:
            bad.append('provider %s has NULL root' % u)
            continue
        seen = set()
        cur = u
        loop = False
        while prov[cur]['parent'] is not None:
            if cur in seen:
                loop = True
                break
            seen.add(cur)
            cur = prov[cur]['parent']
            if cur not in prov:
                break
        if loop:
            bad.append('provider %s is its own ancestor' % u)
        elif cur in prov and p['root'] != cur:
            bad.append('provider %s: root %s but top of chain is %s' %
                       (u, p['root'], cur))
    return bad


def inv_consumer_iff_alloc(nat, allow_empty_consumers=False):
    """C12: consumer record <=> at least one allocation."""
    bad = []
    holders = set(c for (c, rp, rc, n) in nat['allocations'])
    for c in holders:
        if c not in nat['consumers']:
            bad.append('consumer %s holds allocations but has no record' % c)
    if not allow_empty_consumers:
        for c in nat['consumers']:
            if c not in holders:
                bad.append('consumer %s has a record but no allocations' % c)
    return bad


_STD_TRAITS = None


def inv_std_present(nat):
    """C19: the standard sets are complete; fixed class ids; name rules."""
    global _STD_TRAITS
    if _STD_TRAITS is None:
        _STD_TRAITS = set(os_traits.get_traits())
    bad = []
    have = set(nat['trait_names'])
    missing = _STD_TRAITS - have
    if missing:
        bad.append('%d standard traits missing, e.g. %s' %
                   (len(missing), sorted(missing)[:3]))
    ids = nat['class_ids']
    for idx, name in enumerate(orc.STANDARDS):
        if name not in ids:
            bad.append('standard class %s missing' % name)
        elif ids[name] != idx:
            bad.append('standard class %s has id %r, expected %d' %
                       (name, ids[name], idx))
    import re
    pat = re.compile(r'^CUSTOM_[A-Z0-9_]+\Z')
    std_classes = set(orc.STANDARDS)
    seen_ids = {}
    for name, i in ids.items():
        if i in seen_ids:
            bad.append('class id %r used twice' % i)
        seen_ids[i] = name
        if name in std_classes:
            continue
        if not pat.match(name) or len(name) > 255:
            bad.append('custom class with illegal name %r' % name)
        if i < 10000:
            bad.append('custom class %s has id %r < 10000' % (name, i))
    for name in have - _STD_TRAITS:
        if not pat.match(name) or len(name) > 255:
            bad.append('custom trait with illegal name %r' % name)
    if len(nat['trait_names']) != len(have):
        bad.append('duplicate trait names')
    return bad
