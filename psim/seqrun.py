"""Fault-free sequential profile: generated history, model in lock-step,
every oracle evaluated after every request.

Each finding carries the set of properties it is evidence against ("tags");
a property's check reports the findings tagged with it.
"""
import copy

from psim import dump
from psim import invariants as inv
from psim import model as M
from psim import seams
from psim import workload


class Finding(object):
    def __init__(self, tags, rule, detail, step, op, resp=None):
        self.tags = set(tags)
        self.rule = rule
        self.detail = detail
        self.step = step
        self.op = op
        self.resp = resp

    def signature(self):
        return '%s %s' % (self.rule, (self.op or {}).get('kind', '-'))

    def to_json(self):
        return {'tags': sorted(self.tags), 'rule': self.rule,
                'detail': self.detail, 'step': self.step,
                'op': workload.op_brief(self.op) if self.op else None,
                'kind': (self.op or {}).get('kind'),
                'response': self.resp}


def norm(x):
    """Order-insensitive canonical form of a JSON value."""
    if isinstance(x, dict):
        return {k: norm(v) for k, v in x.items()}
    if isinstance(x, list):
        return sorted((norm(v) for v in x), key=repr)
    return x


def partial_match(want, have):
    if isinstance(want, dict):
        if not isinstance(have, dict):
            return False
        return all(k in have and partial_match(v, have[k])
                   for k, v in want.items())
    return norm(want) == norm(have)


ALLOC_WRITE_KINDS = ('alloc_put', 'alloc_post', 'reshape')
TREE_KINDS = ('rp_create', 'rp_update', 'rp_delete')
NAME_KINDS = ('trait_put', 'trait_delete', 'rc_post', 'rc_put', 'rc_delete',
              'rc_rename')


def placed_amounts(op):
    """(consumer, rp, rc, amount) placed by an allocation-writing request."""
    out = []
    b = op.get('b') or {}
    if op['kind'] == 'alloc_put':
        c = M.canon_uuid(op['p'].rsplit('/', 1)[1])
        data = {c: b}
    elif op['kind'] == 'alloc_post':
        data = b
    elif op['kind'] == 'reshape':
        data = b.get('allocations', {})
    else:
        return out
    for c, body in data.items():
        a = body.get('allocations')
        if isinstance(a, list):
            # a provider named twice: the later entry is the request
            last = {}
            for item in a:
                last[item['resource_provider']['uuid']] = item['resources']
            for rp, res in last.items():
                for rc, n in res.items():
                    out.append((c, rp, rc, n))
        elif isinstance(a, dict):
            for rp, d in a.items():
                for rc, n in d['resources'].items():
                    out.append((c, rp, rc, n))
    return out


class SeqRun(object):
    """One sequential history against one world."""

    def __init__(self, world, seed, n_ops=40, gen_kwargs=None, knobs=None,
                 ops=None, follow_up_null=True, start='synced',
                 stop_tags=None, two_workers=False):
        self.two_workers = two_workers
        self.world = world
        self.seed = seed
        self.n_ops = n_ops
        self.knobs = dict(knobs or {})
        self.fixed_ops = ops
        self.gen_kwargs = dict(gen_kwargs or {})
        self.findings = []
        self.history = []       # (op brief, status)
        self.stats = {'requests': 0, 'by_kind': {}, 'by_status': {},
                      'rejected': 0, 'overcommit_ledger_entries': 0,
                      'reparent_subtree': 0, 'states': set()}
        self.ledger = {}        # (rp, rc) -> used when it entered
        self.follow_up_null = follow_up_null
        self.start = start
        self.stop = False

    # ------------------------------------------------------------------
    def setup(self):
        import random
        w = self.world
        w.restore(w.snap_synced if self.start == 'synced' else w.snap_empty)
        seams.seed_process(self.seed)
        self.rng = random.Random(self.seed)
        conf = w.conf
        for k, v in self.knobs.items():
            conf.set_override(k, v, group='placement')
        self.sim = seams.Sim(w, seed=self.seed, trace_sql=False)
        self.model = M.Model(
            incomplete_project=conf.placement.incomplete_consumer_project_id,
            incomplete_user=conf.placement.incomplete_consumer_user_id)
        self.gen = workload.Gen(self.rng, **self.gen_kwargs)
        self.gen.accept_variants = True
        self.raw = dump.raw(w)
        self.nat = dump.natural(w, self.raw)

    def teardown(self):
        for k in self.knobs:
            self.world.conf.clear_override(k, group='placement')

    def add(self, tags, rule, detail, op, resp=None):
        self.findings.append(Finding(tags, rule, detail, len(self.history),
                                     op, resp))

    def do(self, op):
        w = self.world
        if self.two_workers and 'w' not in op:
            op['w'] = 0 if self.fixed_ops is not None else (
                1 if self.rng.random() < 0.5 else 0)
        if self.two_workers and op.get('w'):
            # served by the second API worker process (own module state and
            # caches, same database)
            self.stats['peer_requests'] = \
                self.stats.get('peer_requests', 0) + 1
            return w.peer_request(op['m'], op['p'], op.get('b'),
                                  op.get('v'), op.get('h'))
        # clock: small steps, an hour forward, and the occasional jump
        # backwards (NTP step); no listed property may depend on it
        self.sim.advance(self.rng.choice([0, 1, 1, 5, 3600, -7200]))
        t = self.sim.run_inline(lambda: w.request(
            op['m'], op['p'], op.get('b'), op.get('v'), op.get('h')))
        return t.result

    # ------------------------------------------------------------------
    def restart_step(self, op):
        """The worker is restarted between two requests: start-up
        synchronisation runs again (a second worker process, if any, is
        replaced too) and must leave every stored row as it was."""
        before = self.raw
        self.world.stop_peer()
        self.sim.run_inline(self.world.restart)
        self.history.append((workload.op_brief(op), 0))
        self.stats['restarts'] = self.stats.get('restarts', 0) + 1
        after = dump.raw(self.world)
        if after != before:
            self.add({'C19', 'C11'}, 'restart-changed-state', '; '.join(
                dump.diff(before, after)[:6]), op)
            self.stop = True
        self.raw = after
        self.nat = dump.natural(self.world, after)

    def step(self, op):
        if op['m'] == 'RESTART':
            return self.restart_step(op)
        model = self.model
        before_raw, before_nat = self.raw, self.nat
        pre_model = model.clone()
        try:
            exp = model.apply(op)
        except KeyError as e:
            raise seams.HarnessError('model: %s' % e)
        resp = self.do(op)
        self.stats['requests'] += 1
        k = op.get('kind', '?')
        self.stats['by_kind'][k] = self.stats['by_kind'].get(k, 0) + 1
        self.stats['by_status'][resp.status] = \
            self.stats['by_status'].get(resp.status, 0) + 1
        if op.get('defect'):
            dk = 'defect_%s_%s' % (k, op['defect'])
            self.stats.setdefault('by_defect', {})
            self.stats['by_defect'][dk] = \
                self.stats['by_defect'].get(dk, 0) + 1
        rbrief = resp.brief()
        self.history.append((workload.op_brief(op), resp.status))
        after_raw = dump.raw(self.world)
        after_nat = dump.natural(self.world, after_raw)
        self.raw, self.nat = after_raw, after_nat
        kind = op.get('kind', '')
        v = M.ver(op.get('v') or '1.0')
        tags_status = {'C11'}
        if op['m'] == 'DELETE':
            tags_status.add('C08')
        if kind in TREE_KINDS:
            tags_status.add('C09')
        if kind in NAME_KINDS:
            tags_status.add('C19')
        if kind in ALLOC_WRITE_KINDS or kind == 'alloc_delete':
            tags_status.add('C12')
        if kind in ALLOC_WRITE_KINDS:
            tags_status.add('C01')

        # ---- 5xx is never right ------------------------------------
        if resp.status >= 500 and op.get('defect') == 'unencodable':
            # known finding (DESIGN 5.2): 500 instead of 400; the history
            # goes on, the no-trace check below still applies
            self.add({'C11'}, 'server-error-unencodable-text',
                     'status %d for a lone surrogate in %s: %s' % (
                         resp.status, kind, (resp.body or b'')[:200]),
                     op, rbrief)
        elif resp.status >= 500 and op.get('defect') == 'nan':
            # known finding as well: 500 instead of 400 for a NaN ratio
            self.add({'C11'}, 'server-error-nan-ratio',
                     'status %d for allocation_ratio NaN in %s: %s' % (
                         resp.status, kind, (resp.body or b'')[:200]),
                     op, rbrief)
        elif resp.status >= 500:
            self.add(tags_status | {'C15'}, 'server-error',
                     'status %d: %s' % (resp.status, (resp.body or b'')[:300]),
                     op, rbrief)
            self.stop = True

        # ---- status / code / body against the model ------------------
        elif resp.status != exp.status:
            self.add(tags_status, 'status',
                     'expected %d got %d (%s)' % (
                         exp.status, resp.status,
                         (resp.body or b'')[:200]), op, rbrief)
            self.stop = True
        else:
            if exp.code and v >= (1, 23) and not (
                    (op.get('h') or {}).get('accept') and
                    not M.json_acceptable(op['h']['accept'])):
                # (an error is rendered in a type the client accepts)
                code = resp.error_code()
                if code != exp.code and code not in exp.alt_codes:
                    self.add({'C11'}, 'error-code',
                             'expected %s got %s' % (exp.code, code), op,
                             rbrief)
            if exp.body is not None:
                ok = (partial_match(exp.body, resp.json) if exp.body_partial
                      else norm(exp.body) == norm(resp.json))
                if not ok:
                    self.add({'C11'}, 'body', 'expected %r got %r' % (
                        exp.body, resp.json), op, rbrief)
            if exp.location is not None:
                loc = resp.headers.get('location', '')
                if not loc.endswith(exp.location):
                    self.add({'C11'}, 'location', 'expected %s got %s' % (
                        exp.location, loc), op, rbrief)

        ok_status = resp.status < 400

        # ---- C04: rejected => no trace ---------------------------------
        if not ok_status:
            self.stats['rejected'] += 1
            if dump.raw_core(before_raw) != dump.raw_core(after_raw):
                d = dump.diff(dump.raw_core(before_raw),
                              dump.raw_core(after_raw))
                tags = {'C04'}
                if any('consumers' in x for x in d):
                    tags.add('C12')
                if op['m'] == 'DELETE':
                    tags.add('C08')
                if kind in TREE_KINDS:
                    tags.add('C09')
                if kind in NAME_KINDS:
                    tags.add('C19')
                self.add(tags, 'rejected-but-changed',
                         'status %d; %s' % (resp.status, '; '.join(d[:6])),
                         op, rbrief)
                self.stop = True
            elif not dump.aux_grew_only(before_raw, after_raw):
                self.add({'C04'}, 'rejected-removed-aux',
                         'auxiliary rows removed', op, rbrief)
        # ---- reads change nothing ------------------------------------
        if op['m'] == 'GET' and before_raw != after_raw:
            self.add({'C10', 'C11'}, 'read-changed-state', '; '.join(
                dump.diff(before_raw, after_raw)[:6]), op, rbrief)

        # ---- C10: generations -------------------------------------------
        bp = before_nat['providers']
        ap = after_nat['providers']
        for u in ap:
            if u in bp:
                g0, g1 = bp[u]['generation'], ap[u]['generation']
                if g1 < g0:
                    self.add({'C10'}, 'generation-decreased',
                             'provider %s %d -> %d' % (u, g0, g1), op, rbrief)
                if not ok_status or op['m'] == 'GET':
                    if g1 != g0:
                        self.add({'C10', 'C04'}, 'generation-moved-on-'
                                 'failure-or-read', 'provider %s %d -> %d' %
                                 (u, g0, g1), op, rbrief)
                elif resp.status == exp.status:
                    if u in exp.must_bump and g1 <= g0:
                        self.add({'C10'}, 'generation-not-increased',
                                 'provider %s stays at %d' % (u, g0), op,
                                 rbrief)
                    if (u not in exp.must_bump and u not in exp.may_bump
                            and g1 != g0):
                        self.add({'C10'}, 'generation-moved-unexpectedly',
                                 'provider %s %d -> %d' % (u, g0, g1), op,
                                 rbrief)
        # model-free part: data changed => generation increased
        if ok_status and op['m'] != 'GET' and kind != 'rc_rename':
            for u in ap:
                if u not in bp:
                    continue

                def proj(n, key, idx=0):
                    return sorted(x for x in n[key] if x[idx] == u)
                changed = (
                    {k: x for k, x in before_nat['inventories'].items()
                     if k[0] == u} !=
                    {k: x for k, x in after_nat['inventories'].items()
                     if k[0] == u} or
                    proj(before_nat, 'traits') != proj(after_nat, 'traits'))
                if kind == 'agg_put' and v >= (1, 19):
                    changed = changed or (proj(before_nat, 'aggregates') !=
                                          proj(after_nat, 'aggregates'))
                if changed and ap[u]['generation'] <= bp[u]['generation']:
                    self.add({'C10'}, 'data-changed-generation-not',
                             'provider %s' % u, op, rbrief)
            if kind in ALLOC_WRITE_KINDS:
                for (c, rp, rc, n) in placed_amounts(op):
                    if rp in ap and rp in bp and n > 0 and \
                            ap[rp]['generation'] <= bp[rp]['generation']:
                        self.add({'C10'}, 'alloc-write-generation-not',
                                 'provider %s' % rp, op, rbrief)
        bc = before_nat['consumers']
        ac = after_nat['consumers']
        for c in ac:
            if c in bc:
                g0, g1 = bc[c]['generation'], ac[c]['generation']
                if g1 < g0:
                    self.add({'C10'}, 'generation-decreased',
                             'consumer %s %d -> %d' % (c, g0, g1), op, rbrief)
                if (not ok_status or op['m'] == 'GET') and g1 != g0:
                    self.add({'C10', 'C04'},
                             'generation-moved-on-failure-or-read',
                             'consumer %s' % c, op, rbrief)
                if ok_status and resp.status == exp.status:
                    if c in exp.cons_must and g1 <= g0:
                        self.add({'C10'}, 'generation-not-increased',
                                 'consumer %s stays at %d' % (c, g0), op,
                                 rbrief)
                    if c not in exp.cons_must and c not in exp.cons_may \
                            and g1 != g0:
                        self.add({'C10'}, 'generation-moved-unexpectedly',
                                 'consumer %s %d -> %d' % (c, g0, g1), op,
                                 rbrief)
        # generation reported by a write == stored
        if ok_status and op['m'] in ('PUT', 'POST') and \
                isinstance(resp.json, dict):
            rj = resp.json
            u = None
            if op['p'].startswith('/resource_providers/'):
                u = op['p'].split('/')[2].split('?')[0]
            g = rj.get('resource_provider_generation', rj.get('generation')
                       if 'uuid' in rj else None)
            if u is None and 'uuid' in rj:
                u = rj['uuid']
            if g is not None and u in ap and ap[u]['generation'] != g:
                self.add({'C10'}, 'write-response-generation',
                         'response says %r, stored %r' % (
                             g, ap[u]['generation']), op, rbrief)

        # ---- invariants -------------------------------------------------
        for msg in inv.inv_refs(after_nat):
            self.add({'C08'}, 'dangling', msg, op, rbrief)
            self.stop = True
        for msg in inv.inv_forest(after_nat):
            self.add({'C09'}, 'forest', msg, op, rbrief)
            self.stop = True
        for msg in inv.inv_consumer_iff_alloc(after_nat):
            self.add({'C12'}, 'consumer-iff-allocations', msg, op, rbrief)
            self.stop = True
        if kind in NAME_KINDS:
            for msg in inv.inv_std_present(after_nat):
                self.add({'C19'}, 'standard-names', msg, op, rbrief)
        # C01
        if ok_status and kind in ALLOC_WRITE_KINDS:
            for msg in inv.inv_capacity_for(after_nat, placed_amounts(op)):
                self.add({'C01'}, 'capacity', msg, op, rbrief)
                self.stop = True
        over = inv.overcommitted(after_nat)
        used = inv.usage_map(after_nat)
        inv_changing = kind in ('inv_put_all', 'inv_put_one', 'inv_post',
                                'inv_delete_one', 'inv_delete_all',
                                'reshape', 'rc_rename', 'rp_delete')
        for k2 in list(self.ledger):
            if k2 not in over:
                del self.ledger[k2]
        for k2, (u_, cap) in over.items():
            if k2 in self.ledger:
                if u_ > self.ledger[k2] and not inv_changing:
                    self.add({'C01'}, 'overcommitted-usage-grew',
                             '%r: %d -> %d (capacity %r)' % (
                                 k2, self.ledger[k2], u_, cap), op, rbrief)
                self.ledger[k2] = u_
            else:
                if not (ok_status and inv_changing):
                    self.add({'C01'}, 'overcommit-entered-without-inventory-'
                             'change', '%r used %d capacity %r' % (
                                 k2, u_, cap), op, rbrief)
                self.ledger[k2] = u_
                self.stats['overcommit_ledger_entries'] += 1

        # ---- store == model ------------------------------------------------
        if not self.stop and resp.status == exp.status:
            model.adopt(after_nat)
            mn = model.as_natural()
            core = dump.natural_core(after_nat)
            if mn != core:
                d = dump.diff(mn, core)
                tags = {'C11'}
                if kind in ALLOC_WRITE_KINDS or kind.startswith('inv_') \
                        or kind in ('agg_put', 'rpt_put'):
                    tags.add('C04')
                if any('consumers' in x for x in d):
                    tags.add('C12')
                if kind in TREE_KINDS:
                    tags.add('C09')
                if op['m'] == 'DELETE':
                    tags.add('C08')
                if kind in NAME_KINDS:
                    tags.add('C19')
                self.add(tags, 'state-differs-from-model',
                         '; '.join(d[:8]), op, rbrief)
                self.stop = True
        if self.stop:
            self.model = pre_model
        # reach probes
        if kind == 'rp_update' and op.get('note') in ('reparent', 'unparent') \
                and ok_status:
            u = op['p'].split('/')[2]
            if u in model.providers and len(model.subtree(u)) >= 2:
                self.stats['reparent_subtree'] += 1
        self.stats['states'].add(dump.digest(dump.natural_core(
            after_nat, generations=False)))
        return resp

    # ------------------------------------------------------------------
    def cross_views(self):
        """C11 cross-view invariants through the API (a read burst)."""
        w = self.world
        m = self.model
        ver = '1.39'
        total_by_rp = {}
        for u in list(m.providers):
            r = self.do({'m': 'GET', 'p': '/resource_providers/%s/usages' % u,
                         'v': ver})
            ra = self.do({'m': 'GET', 'p':
                          '/resource_providers/%s/allocations' % u, 'v': ver})
            if r.status != 200 or ra.status != 200:
                self.add({'C11'}, 'cross-view', 'usages/allocations of %s: '
                         '%d/%d' % (u, r.status, ra.status), None)
                continue
            sums = {}
            for c, d in ra.json['allocations'].items():
                for rc, n in d['resources'].items():
                    sums[rc] = sums.get(rc, 0) + n
            for rc, n in r.json['usages'].items():
                if sums.get(rc, 0) != n:
                    self.add({'C11'}, 'cross-view',
                             'provider %s usage of %s = %d but allocations '
                             'sum to %d' % (u, rc, n, sums.get(rc, 0)), None)
                total_by_rp[(u, rc)] = n
            for rc in sums:
                if rc not in r.json['usages']:
                    self.add({'C11', 'C08'}, 'cross-view',
                             'provider %s has allocations of %s but no usage '
                             'entry' % (u, rc), None)
            # per-consumer view agrees
            for c, d in ra.json['allocations'].items():
                rc_ = self.do({'m': 'GET', 'p': '/allocations/' + c,
                               'v': ver})
                mine = rc_.json['allocations'].get(u, {}).get('resources')
                if mine != d['resources']:
                    self.add({'C11'}, 'cross-view',
                             'consumer view %r != provider view %r for %s '
                             'on %s' % (mine, d['resources'], c, u), None)
        # sum of /usages over projects == sum of provider usages
        tot = {}
        for (u, rc), n in total_by_rp.items():
            tot[rc] = tot.get(rc, 0) + n
        ptot = {}
        for p in set(c['project'] for c in m.consumers.values()):
            r = self.do({'m': 'GET', 'p': '/usages?project_id=' + p,
                         'v': '1.37'})
            for rc, n in r.json['usages'].items():
                ptot[rc] = ptot.get(rc, 0) + n
        # per-type usages and consumer counts (1.38+) against the model,
        # for every project/user pair in use
        pairs = set()
        for c in m.consumers.values():
            pairs.add((c['project'], None))
            pairs.add((c['project'], c['user']))
        for (p, u) in sorted(pairs, key=repr):
            for ct in (None, 'all', 'unknown', 'INSTANCE'):
                q = {'project_id': p}
                path = '/usages?project_id=' + p
                if u is not None:
                    q['user_id'] = u
                    path += '&user_id=' + u
                if ct is not None:
                    q['consumer_type'] = ct
                    path += '&consumer_type=' + ct
                r = self.do({'m': 'GET', 'p': path, 'v': '1.39'})
                exp = m.total_usages((1, 39), q)
                if r.status != exp.status or norm(r.json) != norm(exp.body):
                    self.add({'C11'}, 'cross-view',
                             '%s: expected %r got %r' % (
                                 path, exp.body, r.json), None)
        tot = {k: v for k, v in tot.items() if v}
        if tot != ptot:
            self.add({'C11'}, 'cross-view', 'sum over projects %r != sum '
                     'over providers %r' % (ptot, tot), None)

    def null_follow_up(self):
        """C12: a consumer that is absent can be created with generation
        null."""
        m = self.model
        absent = [c for c in self.gen.C if c not in m.consumers]
        if not absent:
            return
        c = self.rng.choice(absent)
        alloc, _ = self.gen._valid_alloc(m, {c})
        if not alloc:
            return
        v = self.rng.choice(['1.28', '1.36', '1.38', '1.39'])
        b = self.gen._alloc_body(v, alloc, c, m, 'right')
        op = {'m': 'PUT', 'p': '/allocations/' + c, 'v': v, 'b': b,
              'kind': 'alloc_put', 'note': 'null-follow-up'}
        self.step(op)

    # ------------------------------------------------------------------
    def run(self):
        self.setup()
        try:
            if self.fixed_ops is not None:
                for op in self.fixed_ops:
                    self.step(copy.deepcopy(op))
                    if self.stop:
                        break
                if not self.stop:
                    self.cross_views()
                return self.findings
            for i in range(self.n_ops):
                if self.rng.random() < 0.02:
                    self.step({'m': 'RESTART', 'p': '-', 'kind': 'restart'})
                    if self.stop:
                        break
                op = self.gen.next_op(self.model)
                self.step(op)
                if self.stop:
                    break
                if self.follow_up_null and self.rng.random() < 0.08:
                    self.null_follow_up()
                    if self.stop:
                        break
                # with two workers the read-backs are what exposes a view
                # that one process keeps of what the other has since changed
                if self.rng.random() < (0.3 if self.two_workers else 0.05):
                    self.cross_views()
            if not self.stop:
                self.cross_views()
            return self.findings
        finally:
            self.teardown()
