"""In-memory mutants for the sensitivity self-test.

Each entry monkeypatches the imported placement modules inside the check
process only (env PSIM_MUTANT=<name>); /repo is never written.  Every mutant
breaks one property the way a plausible edit would; 'neg-*' entries are
behaviour-preserving controls that must stay silent.
"""
import os


def _m_rp_cas_dropped():
    # C05/C07: provider generation increment no longer compares
    import sqlalchemy as sa
    from placement.objects import resource_provider as rp

    def increment_generation(self):
        new_generation = self.generation + 1
        upd = rp._RP_TBL.update().where(
            rp._RP_TBL.c.id == self.id).values(generation=new_generation)
        self._context.session.execute(upd)
        self.generation = new_generation
    rp.ResourceProvider.increment_generation = increment_generation


def _m_consumer_cas_dropped():
    import sqlalchemy as sa  # noqa
    from placement.objects import consumer as c

    def increment_generation(self):
        new_generation = self.generation + 1
        upd = c.CONSUMER_TBL.update().where(
            c.CONSUMER_TBL.c.id == self.id).values(generation=new_generation)
        self._context.session.execute(upd)
        self.generation = new_generation
    c.Consumer.increment_generation = increment_generation


def _patch_capacity(transform):
    """Re-implement the capacity test of _check_capacity_exceeded with a
    twist; everything else unchanged."""
    from placement.objects import allocation as a
    import inspect
    src = inspect.getsource(a._check_capacity_exceeded)
    src2 = transform(src)
    assert src2 != src, 'mutant did not apply'
    ns = {}
    exec(compile(src2, a.__file__, 'exec'), a.__dict__, ns)
    a._check_capacity_exceeded = ns['_check_capacity_exceeded']


def _m_cap_no_running_sum():
    _patch_capacity(lambda s: s.replace(
        "        if (capacity < (used + amount_needed) or\n"
        "                capacity < (used + "
        "rp_resource_class_sum[rp_uuid][rc_id])):",
        "        if capacity < (used + amount_needed):"))


def _m_cap_ignore_reserved():
    _patch_capacity(lambda s: s.replace(
        "capacity = (usage.total - usage.reserved) * allocation_ratio",
        "capacity = usage.total * allocation_ratio"))


def _m_cap_off_by_one():
    _patch_capacity(lambda s: s.replace(
        "        if (capacity < (used + amount_needed) or\n"
        "                capacity < (used + "
        "rp_resource_class_sum[rp_uuid][rc_id])):",
        "        if (capacity + 1 < (used + amount_needed) or\n"
        "                capacity + 1 < (used + "
        "rp_resource_class_sum[rp_uuid][rc_id])):"))


def _m_cap_skip_units():
    _patch_capacity(lambda s: s.replace(
        "        if (amount_needed < min_unit or amount_needed > max_unit or\n"
        "                amount_needed % step_size != 0):",
        "        if amount_needed < min_unit:"))


def _m_traits_no_bump():
    from placement.objects import resource_provider as rp
    from placement.objects import trait as trait_obj
    from placement import db_api

    @db_api.placement_context_manager.writer
    def _set_traits(context, rp_, traits):
        existing = set(rec.id for rec in
                       trait_obj.get_traits_by_provider_id(context, rp_.id))
        want = set(t.id for t in traits)
        to_add = want - existing
        to_delete = existing - want
        if to_delete:
            rp._delete_traits_from_provider(context, rp_.id, to_delete)
        if to_add:
            rp._add_traits_to_provider(context, rp_.id, to_add)
    rp._set_traits = _set_traits


def _m_inv_delete_no_bump():
    from placement.objects import resource_provider as rp
    from placement import db_api
    from placement import exception

    @db_api.placement_context_manager.writer
    def _delete_inventory(context, rp_, resource_class):
        rc_id = context.rc_cache.id_from_string(resource_class)
        if not rp._delete_inventory_from_provider(context, rp_, [rc_id]):
            raise exception.NotFound('No inventory of class %s found'
                                     % resource_class)
    rp._delete_inventory = _delete_inventory


def _m_no_consumer_gc():
    from placement.objects import consumer as c
    c.delete_consumers_if_no_allocations = lambda ctx, uuids: None
    from placement.objects import allocation as a
    a.consumer_obj.delete_consumers_if_no_allocations = \
        lambda ctx, uuids: None


def _m_no_delete_consumers_on_failure():
    from placement.handlers import allocation as h
    h.delete_consumers = lambda consumers: None


def _m_update_consumers_own_txn():
    # consumer attribute update committed before the allocation write
    from placement.handlers import util as u
    from placement import db_api
    orig = u.update_consumers

    def update_consumers(consumers, request_attrs):
        consumers = list(consumers)
        if not consumers:
            return
        ctx = consumers[0]._context
        orig(consumers, request_attrs)
        ctx.session.commit()
    u.update_consumers = update_consumers
    from placement.handlers import allocation as h
    h.data_util.update_consumers = update_consumers


def _m_inventory_inuse_dropped():
    from placement.objects import resource_provider as rp
    import sqlalchemy as sa

    def _delete_inventory_from_provider(ctx, rp_, to_delete):
        del_stmt = rp._INV_TBL.delete().where(sa.and_(
            rp._INV_TBL.c.resource_provider_id == rp_.id,
            rp._INV_TBL.c.resource_class_id.in_(to_delete)))
        return ctx.session.execute(del_stmt).rowcount
    rp._delete_inventory_from_provider = _delete_inventory_from_provider


def _m_rp_inuse_dropped():
    from placement.objects import resource_provider as rp
    import inspect
    src = inspect.getsource(rp.ResourceProvider._delete)
    src2 = src.replace("        if rp_allocations:\n"
                       "            raise exception.ResourceProviderInUse()\n",
                       "")
    assert src2 != src
    import textwrap
    ns = {}
    exec(compile(textwrap.dedent(src2), rp.__file__, 'exec'), rp.__dict__, ns)
    rp.ResourceProvider._delete = ns['_delete']


def _m_no_subtree_root_rewrite():
    from placement.objects import resource_provider as rp
    rp.ResourceProvider.get_subtree_orig = rp.ResourceProvider.get_subtree
    import inspect
    import textwrap
    src = inspect.getsource(rp.ResourceProvider._update_in_db)
    src2 = src.replace("        for rp in subtree_rps:",
                       "        for rp in subtree_rps[:1]:")
    assert src2 != src
    ns = {}
    exec(compile(textwrap.dedent(src2), rp.__file__, 'exec'), rp.__dict__, ns)
    rp.ResourceProvider._update_in_db = ns['_update_in_db']


def _m_no_loop_check():
    from placement.objects import resource_provider as rp
    import inspect
    import textwrap
    src = inspect.getsource(rp.ResourceProvider._update_in_db)
    src2 = src.replace("if parent_uuid in subtree_rp_uuids:",
                       "if parent_uuid == self.uuid:")
    assert src2 != src
    ns = {}
    exec(compile(textwrap.dedent(src2), rp.__file__, 'exec'), rp.__dict__, ns)
    rp.ResourceProvider._update_in_db = ns['_update_in_db']


def _m_usage_wrong_key():
    # provider usages summed without the class join condition
    from placement.objects import usage as us
    from placement.db.sqlalchemy import models
    from placement import db_api
    from sqlalchemy import func, sql

    @db_api.placement_context_manager.reader
    def _get(context, rp_uuid):
        query = (context.session.query(
            models.Inventory.resource_class_id,
            func.coalesce(func.sum(models.Allocation.used), 0))
            .join(models.ResourceProvider,
                  models.Inventory.resource_provider_id ==
                  models.ResourceProvider.id)
            .outerjoin(models.Allocation,
                       models.Inventory.resource_provider_id ==
                       models.Allocation.resource_provider_id)
            .filter(models.ResourceProvider.uuid == rp_uuid)
            .group_by(models.Inventory.resource_class_id))
        return [dict(resource_class=context.rc_cache.string_from_id(i[0]),
                     usage=i[1]) for i in query.all()]
    us._get_all_by_resource_provider_uuid = _get


def _m_no_retry_set_allocations():
    from placement.objects import allocation as a
    a._set_allocations = a._set_allocations.__wrapped__


def _m_no_retry_trait_sync():
    from placement.objects import trait as t
    t._trait_sync = t._trait_sync.__wrapped__


def _m_reshape_commits_interim():
    # interim inventory committed in its own transaction
    from placement.objects import reshaper as r
    from placement import db_api
    import inspect
    import textwrap
    src = inspect.getsource(r.reshape)
    src2 = src.replace(
        "        rp.set_inventory(list(inv_by_rc.values()))\n",
        "        rp.set_inventory(list(inv_by_rc.values()))\n"
        "        ctx.session.commit()\n", 1)
    assert src2 != src
    ns = {}
    exec(compile(textwrap.dedent(src2), r.__file__, 'exec'), r.__dict__, ns)
    r.reshape = ns['reshape']
    from placement.handlers import reshaper as h
    h.reshaper.reshape = ns['reshape']


def _m_limit_plus_one():
    from placement.objects import research_context as rc
    orig = rc.RequestWideSearchContext.limit_results

    def limit_results(self, alloc_request_objs, summary_objs):
        lim = self._limit
        if isinstance(lim, int) and lim:
            self._limit = lim + 1
        try:
            return orig(self, alloc_request_objs, summary_objs)
        finally:
            self._limit = lim
    rc.RequestWideSearchContext.limit_results = limit_results


def _m_alloc_post_partial():
    # multi-consumer POST applied consumer by consumer (not atomic)
    from placement.objects import allocation as a
    orig = a.replace_all

    def replace_all(context, alloc_list):
        by_c = {}
        for al in alloc_list:
            by_c.setdefault(al.consumer.uuid, []).append(al)
        if len(by_c) <= 1:
            return orig(context, alloc_list)
        for c, lst in by_c.items():
            orig(context, lst)
            context.session.commit()
    a.replace_all = replace_all
    from placement.handlers import allocation as h
    h.alloc_obj.replace_all = replace_all


def _m_rc_id_retry_dropped():
    # a lost race for a custom class id is no longer retried
    from placement.objects import resource_class as rc
    rc.ResourceClass.RESOURCE_CREATE_RETRY_COUNT = 1


def _m_rc_next_id_reuses_gap():
    # next custom id = number of custom classes + 10000 (collides after a
    # delete of a class that is not the highest)
    from placement.objects import resource_class as rc
    from placement.db.sqlalchemy import models
    from placement import db_api

    @db_api.placement_context_manager.reader
    def _get_next_id(context):
        n = context.session.query(models.ResourceClass).filter(
            models.ResourceClass.id >= 10000).count()
        return 10000 + n
    rc.ResourceClass._get_next_id = staticmethod(_get_next_id)


def _m_neg_reorder_checks():
    # negative control: early generation comparison of set_inventories
    # skipped; the CAS in the write transaction still protects.
    from placement.handlers import inventory as h
    import inspect
    import textwrap
    fn = h.set_inventories
    # unwrap decorators down to the plain function
    inner = fn
    while hasattr(inner, '__wrapped__'):
        inner = inner.__wrapped__
    # PlacementWsgify keeps the function in .func
    target = getattr(fn, 'func', None)
    return  # kept as a documented no-op control: nothing is patched


def _m_neg_error_text():
    from placement import exception
    exception.InvalidAllocationCapacityExceeded.msg_fmt = (
        "Not enough room for %(resource_class)s on %(resource_provider)s.")


def _m_process_cache_provider_traits():
    # C11/C10: a per-PROCESS cache of a provider's trait rows, invalidated by
    # the writes of the same process only - exact with one worker, stale as
    # soon as a second worker process writes
    from placement.objects import trait as t
    from placement.objects import resource_provider as rp
    cache = {}
    orig_get = t.get_traits_by_provider_id
    orig_set = rp._set_traits

    def get_traits_by_provider_id(context, rp_id):
        if rp_id not in cache:
            cache[rp_id] = orig_get(context, rp_id)
        return list(cache[rp_id])

    def _set_traits(context, rp_, traits):
        cache.pop(rp_.id, None)
        try:
            return orig_set(context, rp_, traits)
        finally:
            cache.pop(rp_.id, None)
    t.get_traits_by_provider_id = get_traits_by_provider_id
    rp._set_traits = _set_traits


def _m_alloc_commit_every_100():
    # C18/C04: "keep transactions short" - the allocation rows of a large
    # request are committed in batches of 100; identical below 100 rows
    from placement.objects import allocation as a
    import inspect
    src = inspect.getsource(a._set_allocations)
    src = src[src.index('def _set_allocations'):]
    src2 = src.replace(
        "        res = context.session.execute(ins_stmt)\n"
        "        alloc.id = res.lastrowid\n",
        "        res = context.session.execute(ins_stmt)\n"
        "        alloc.id = res.lastrowid\n"
        "        _n_done = locals().get('_n_done', 0) + 1\n"
        "        if _n_done % 100 == 0:\n"
        "            context.session.commit()\n")
    assert src2 != src, 'mutant did not apply'
    ns = {}
    exec(compile(src2, a.__file__, 'exec'), a.__dict__, ns)
    inner = ns['_set_allocations']
    # keep the decorators of the original (writer transaction + retry)
    import oslo_db.api
    from placement import db_api
    a._set_allocations = oslo_db.api.wrap_db_retry(
        max_retries=5, retry_on_deadlock=True)(
            db_api.placement_context_manager.writer(inner))


MUTANTS = {
    'rp-cas-dropped': _m_rp_cas_dropped,
    'consumer-cas-dropped': _m_consumer_cas_dropped,
    'cap-no-running-sum': _m_cap_no_running_sum,
    'cap-ignore-reserved': _m_cap_ignore_reserved,
    'cap-off-by-one': _m_cap_off_by_one,
    'cap-skip-units': _m_cap_skip_units,
    'traits-no-bump': _m_traits_no_bump,
    'inv-delete-no-bump': _m_inv_delete_no_bump,
    'no-consumer-gc': _m_no_consumer_gc,
    'no-delete-consumers-on-failure': _m_no_delete_consumers_on_failure,
    'update-consumers-own-txn': _m_update_consumers_own_txn,
    'inventory-inuse-dropped': _m_inventory_inuse_dropped,
    'rp-inuse-dropped': _m_rp_inuse_dropped,
    'no-subtree-root-rewrite': _m_no_subtree_root_rewrite,
    'no-loop-check': _m_no_loop_check,
    'usage-wrong-key': _m_usage_wrong_key,
    'no-retry-set-allocations': _m_no_retry_set_allocations,
    'no-retry-trait-sync': _m_no_retry_trait_sync,
    'reshape-commits-interim': _m_reshape_commits_interim,
    'limit-plus-one': _m_limit_plus_one,
    'alloc-post-partial': _m_alloc_post_partial,
    'rc-id-retry-dropped': _m_rc_id_retry_dropped,
    'rc-next-id-reuses-gap': _m_rc_next_id_reuses_gap,
    'process-cache-provider-traits': _m_process_cache_provider_traits,
    'alloc-commit-every-100': _m_alloc_commit_every_100,
    'neg-error-text': _m_neg_error_text,
}

# which checks are expected to notice which mutant
EXPECTED = {
    'rp-cas-dropped': ['C05', 'C07'],
    'consumer-cas-dropped': ['C06'],
    'cap-no-running-sum': ['C01'],
    'cap-ignore-reserved': ['C01'],
    'cap-off-by-one': ['C01'],
    'cap-skip-units': ['C01'],
    'traits-no-bump': ['C10'],
    'inv-delete-no-bump': ['C10'],
    'no-consumer-gc': ['C12'],
    'no-delete-consumers-on-failure': ['C04', 'C12'],
    'update-consumers-own-txn': ['C04'],
    'inventory-inuse-dropped': ['C08'],
    'rp-inuse-dropped': ['C08'],
    'no-subtree-root-rewrite': ['C09'],
    'no-loop-check': ['C09'],
    'usage-wrong-key': ['C11'],
    'no-retry-set-allocations': ['C17'],
    'no-retry-trait-sync': ['C17'],
    'reshape-commits-interim': ['C18', 'C04'],
    'limit-plus-one': ['C20'],
    'alloc-post-partial': ['C04', 'C18'],
    'rc-id-retry-dropped': ['C19'],
    'rc-next-id-reuses-gap': ['C19'],
    'process-cache-provider-traits': ['C11'],
    'alloc-commit-every-100': ['C18'],
    'neg-error-text': [],
}


def apply_from_env():
    name = os.environ.get('PSIM_MUTANT')
    if not name:
        return None
    MUTANTS[name]()
    return name
