"""Driver: python -m psim.check <PROPERTY> --tier quick|thorough

exit 0  property held on everything explored (KNOWN-FINDING lines possible)
exit 1  VIOLATION property=<id> replay=<path>
exit 2  harness error (never 0, never a VIOLATION line)
"""
import argparse
import faulthandler
import hashlib
import json
import multiprocessing as mp
import os
import subprocess
import sys
import time
import traceback
from concurrent.futures import ProcessPoolExecutor
from concurrent.futures import TimeoutError as FutTimeout

HERE = os.path.dirname(os.path.dirname(os.path.abspath(__file__)))
if HERE not in sys.path:
    sys.path.insert(0, HERE)

EVIDENCE_DIR = os.path.join(HERE, 'evidence')
REPLAY_DIR = os.path.join(HERE, 'replays')
KNOWN_FILE = os.path.join(HERE, 'known_findings.txt')

_WORLD = None


def _init_worker():
    global _WORLD
    faulthandler.enable()
    from psim import seams
    from psim.world import World
    _WORLD = World()
    seams.install(_WORLD)


def run_seed(vseed, prop, profile, i):
    h = hashlib.sha256(('%s|%s|%s|%s' % (vseed, prop, profile, i))
                       .encode()).hexdigest()
    return int(h[:12], 16)


def _in_fresh_process(fn, limit):
    """Run fn() in a fork of this (warmed-up, otherwise idle) worker and
    return its pickled result.  Every simulated run therefore starts from the
    module state of a just-started service: nothing a run leaves in process
    memory (caches, flags, counters - of placement or of a change to it) can
    leak into the next run, which would make a finding depend on what the
    worker ran before and so not replay."""
    if os.environ.get('PSIM_NOFORK'):
        return fn()
    import pickle
    r, w = os.pipe()
    pid = os.fork()
    if pid == 0:
        code = 0
        try:
            os.close(r)
            # (faulthandler's watchdog thread does not survive fork)
            import signal
            signal.signal(signal.SIGALRM, signal.SIG_DFL)
            try:
                # say where it was stuck, then die of the signal
                faulthandler.register(signal.SIGALRM, all_threads=True,
                                      chain=True)
            except Exception:
                pass
            signal.alarm(int(limit))
            try:
                out = fn()
            except Exception:
                out = {'harness_error': traceback.format_exc(),
                       'findings': []}
            finally:
                try:
                    _WORLD.stop_peer()
                except Exception:
                    pass
            data = pickle.dumps(out)
            with os.fdopen(w, 'wb') as f:
                f.write(data)
        except BaseException:
            code = 3
        finally:
            os._exit(code)
    os.close(w)
    with os.fdopen(r, 'rb') as f:
        data = f.read()
    os.waitpid(pid, 0)
    if not data:
        return {'harness_error': 'the process of this run died without a '
                'result (see stderr)', 'findings': []}
    return pickle.loads(data)


def _job(args):
    prop, profile, params, seed = args
    from psim import plans
    faulthandler.dump_traceback_later(640, exit=True)

    def body():
        from psim import seams
        fn = plans.profile_fn(profile)
        t0 = time.time()
        # a sixth of the runs is a deployment with debug logging on
        dbg = seams.debug_logging_for(seed)
        seams.set_debug_logging(dbg)
        res = fn(_WORLD, seed, params)
        res['wall'] = time.time() - t0
        res.setdefault('probes', {})['runs_with_debug_logging'] = int(dbg)
        for f in res.get('findings', []):
            if isinstance(f.get('replay'), dict):
                f['replay']['debug_log'] = dbg
        return res
    try:
        res = _in_fresh_process(body, 600)
        if res.get('harness_error'):
            res['harness_error'] += ' [profile=%s params=%r seed=%d]' % (
                profile, params, seed)
        res['seed'] = seed
        res['profile'] = profile
        return res
    except Exception:
        return {'harness_error': traceback.format_exc(), 'seed': seed,
                'profile': profile, 'findings': []}
    finally:
        faulthandler.cancel_dump_traceback_later()


def _replay_job(rp):
    from psim import plans
    faulthandler.dump_traceback_later(140, exit=True)
    try:
        def body():
            from psim import seams
            seams.set_debug_logging(bool(rp.get('debug_log')))
            return plans.replay_fn(rp['profile'])(_WORLD, rp)
        return _in_fresh_process(body, 120)
    except Exception:
        return {'harness_error': traceback.format_exc()}
    finally:
        faulthandler.cancel_dump_traceback_later()


def load_known():
    known, fixed = [], []
    if os.path.exists(KNOWN_FILE):
        for line in open(KNOWN_FILE):
            line = line.strip()
            if not line or line.startswith('#'):
                continue
            if line.startswith('fixed:'):
                fixed.append(line)
            elif line.startswith('finding:'):
                # finding: property=C17 sig=<signature> :: description
                body = line[len('finding:'):].strip()
                head, _, desc = body.partition('::')
                kv = dict(x.split('=', 1) for x in head.split() if '=' in x)
                known.append({'property': kv.get('property'),
                              'sig': kv.get('sig'), 'desc': desc.strip()})
    return known, fixed


def finding_sig(f):
    return f.get('sig') or ('%s/%s' % (f['rule'], f.get('kind')))


def matches(f, expect):
    return (f['rule'] == expect['rule'] and
            f.get('kind') == expect.get('kind'))


def minimise(pool, prop, finding, budget=60.0):
    """Delta-debug the explicit description while the signature persists."""
    from psim import plans
    rp = finding['replay']
    shr = plans.shrinker(rp['profile'])
    if shr is None:
        return rp
    t_end = time.time() + budget

    def still_fails(cand):
        if time.time() > t_end:
            return False
        try:
            res = pool.submit(_replay_job, cand).result(timeout=150)
        except Exception:
            return False
        if isinstance(res, dict):
            return False
        return any(prop in f['tags'] and matches(f, rp['expect'])
                   for f in res)
    try:
        return shr(rp, still_fails)
    except Exception:
        return rp


def fresh_replay(path):
    """Replay in a fresh interpreter; True iff it reproduces."""
    env = dict(os.environ)
    env['PYTHONHASHSEED'] = '0'
    p = subprocess.run([sys.executable, '-m', 'psim.replay', path],
                       cwd=HERE, env=env, stdout=subprocess.PIPE,
                       stderr=subprocess.STDOUT, timeout=600)
    return p.returncode == 1, p.stdout.decode('utf-8', 'replace')


def _json_safe(obj):
    """Evidence must be strict JSON: samples of generated requests may hold
    lone surrogates and non-finite floats (replay files keep the real
    values; they are read back by Python)."""
    import math
    if isinstance(obj, dict):
        return {_json_safe(k) if isinstance(k, str) else k: _json_safe(v)
                for k, v in obj.items()}
    if isinstance(obj, (list, tuple)):
        return [_json_safe(v) for v in obj]
    if isinstance(obj, float) and not math.isfinite(obj):
        return '<float %r>' % obj
    if isinstance(obj, str):
        try:
            obj.encode('utf-8')
        except UnicodeEncodeError:
            return ''.join(c if not 0xD800 <= ord(c) <= 0xDFFF
                           else '<U+%04X>' % ord(c) for c in obj)
    return obj


def _safe_stdout():
    try:
        sys.stdout.reconfigure(errors='backslashreplace')
        sys.stderr.reconfigure(errors='backslashreplace')
    except Exception:
        pass


def main(argv=None):
    _safe_stdout()
    ap = argparse.ArgumentParser()
    ap.add_argument('prop')
    ap.add_argument('--tier', default=os.environ.get('VERIF_TIER', 'quick'))
    ap.add_argument('--seed', type=int,
                    default=int(os.environ.get('VERIF_SEED', '0') or 0))
    ap.add_argument('--workers', type=int,
                    default=int(os.environ.get('PSIM_WORKERS', '0') or 0))
    ap.add_argument('--scale', type=float,
                    default=float(os.environ.get('PSIM_SCALE', '1') or 1))
    args = ap.parse_args(argv)
    if os.environ.get('PYTHONHASHSEED') != '0':
        env = dict(os.environ)
        env['PYTHONHASHSEED'] = '0'
        os.execve(sys.executable, [sys.executable, '-m', 'psim.check'] +
                  (argv if argv is not None else sys.argv[1:]), env)
    if args.tier not in ('quick', 'thorough'):
        args.tier = 'quick'
    from psim import plans
    prop = args.prop
    plan = plans.plan_for(prop, args.tier)
    if plan is None:
        print('no check for %s' % prop)
        return 2
    workers = args.workers or min(16, os.cpu_count() or 4)
    print('psim.check property=%s tier=%s VERIF_SEED=%d workers=%d' % (
        prop, args.tier, args.seed, workers))
    t0 = time.time()
    jobs = []
    for (profile, params, n) in plan['runs']:
        n = max(1, int(n * args.scale))
        for i in range(n):
            jobs.append((prop, profile, params,
                         run_seed(args.seed, prop, profile +
                                  json.dumps(params, sort_keys=True), i)))
    wall_cap = plan.get('wall_cap', 240 if args.tier == 'quick' else 3000)
    agg = plans.Aggregator(prop, args.tier, args.seed, plan)
    known, fixed = load_known()
    harness_errors = []
    violations = []
    known_hits = {}
    skipped = 0
    ctx = mp.get_context('fork')
    import atexit
    import shutil
    import tempfile
    parent = tempfile.mkdtemp(
        prefix='psim-run-',
        dir='/dev/shm' if os.access('/dev/shm', os.W_OK) else None)
    os.environ['PSIM_SCRATCH_PARENT'] = parent
    main_pid = os.getpid()

    def _rm_parent():
        if os.getpid() == main_pid:
            shutil.rmtree(parent, ignore_errors=True)
    atexit.register(_rm_parent)
    pool = ProcessPoolExecutor(workers, mp_context=ctx,
                               initializer=_init_worker)
    try:
        futs = [pool.submit(_job, j) for j in jobs]
        for fut in futs:
            remaining = wall_cap - (time.time() - t0)
            if remaining <= 0:
                if fut.cancel():
                    skipped += 1
                    continue
                remaining = 1
            try:
                res = fut.result(timeout=max(remaining, 1) + 660)
            except FutTimeout:
                harness_errors.append('worker timeout')
                break
            except Exception as e:  # BrokenProcessPool etc.
                harness_errors.append('worker died: %r' % (e,))
                break
            if res.get('harness_error'):
                harness_errors.append(res['harness_error'])
                continue
            agg.add(res)
            for f in res['findings']:
                if prop not in f['tags']:
                    agg.other_property(f)
                    continue
                sig = finding_sig(f)
                k = [x for x in known if x['property'] == prop and
                     x['sig'] == sig]
                if k:
                    known_hits.setdefault(sig, [k[0], 0])[1] += 1
                    continue
                if not any(finding_sig(v) == sig for v in violations):
                    f['seed'] = res['seed']
                    violations.append(f)
        # ---- report ----------------------------------------------------
        rc = 0
        global REPLAY_DIR
        if os.environ.get('PSIM_MUTANT') or os.environ.get('PSIM_SCRATCH'):
            import tempfile
            REPLAY_DIR = tempfile.mkdtemp(prefix='psim-mutant-replays-')
        os.makedirs(REPLAY_DIR, exist_ok=True)
        reported = []
        for f in violations[:5]:
            rp = minimise(pool, prop, f)
            rp['property'] = prop
            rp['seed'] = f.get('seed')
            rp['detail'] = f['detail']
            name = '%s-%s.json' % (prop, hashlib.sha256(
                finding_sig(f).encode()).hexdigest()[:10])
            path = os.path.join(REPLAY_DIR, name)
            with open(path, 'w') as fh:
                json.dump(rp, fh, indent=1, default=str)
            ok, out = fresh_replay(path)
            if not ok:
                harness_errors.append(
                    'replay of %s did not reproduce:\n%s' % (path, out[-2000:]))
                continue
            print('  rule=%s kind=%s seed=%s\n  %s' % (
                f['rule'], f.get('kind'), f.get('seed'), f['detail'][:600]))
            print('VIOLATION property=%s replay=%s' % (prop, path))
            reported.append(path)
            rc = 1
        for sig, (k, n) in sorted(known_hits.items()):
            print('KNOWN-FINDING: property=%s %s (%s; seen %d times in this '
                  'run)' % (prop, k['desc'], sig, n))
    finally:
        pool.shutdown(wait=False, cancel_futures=True)
    wall = time.time() - t0
    agg.finish(wall, len(violations), skipped, known_hits, harness_errors)
    evdir = EVIDENCE_DIR
    if os.environ.get('PSIM_MUTANT') or os.environ.get('PSIM_SCRATCH'):
        # sensitivity self-test / seeded breakages: never overwrite real
        # evidence
        import tempfile
        evdir = tempfile.mkdtemp(prefix='psim-mutant-evidence-')
    os.makedirs(evdir, exist_ok=True)
    with open(os.path.join(evdir, '%s.json' % prop), 'w') as fh:
        json.dump(_json_safe(agg.evidence()), fh, indent=1, sort_keys=True,
                  default=str, allow_nan=False)
    if harness_errors:
        print('HARNESS ERROR (%d):' % len(harness_errors))
        print(harness_errors[0][-3000:])
        if rc == 0:
            rc = 2
    print('done property=%s runs=%d requests=%d wall=%.1fs exit=%d' % (
        prop, agg.runs, agg.requests, wall, rc))
    return rc


if __name__ == '__main__':
    sys.exit(main())
