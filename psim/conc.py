"""Concurrent-batch profile (C05, C06, C07).

A seeded set-up history builds a state; then two or three requests racing for
one provider, consumer or inventory run on real threads under the
baton-passing scheduler (pre-emption only before a top-level BEGIN:
transaction granularity, each transaction atomic and isolated).  Oracles:

* serial-permutation replay from the start snapshot (C07, and the
  "never overwrites" half of C05),
* provider / consumer compare-and-swap specifications linearised by commit
  order from the commit log (C05, C06),
* invariants on the final dump.
"""
import copy
import itertools
import random

from psim import dump
from psim import invariants as inv
from psim import model as M
from psim import seams
from psim import workload

PROVIDER_GEN_KINDS = ('inv_put_all', 'inv_put_one', 'rpt_put', 'agg_put',
                      'reshape')


def carried_provider_gens(op):
    """{provider uuid: carried generation} for generation-carrying requests."""
    k = op['kind']
    b = op.get('b')
    if k in ('inv_put_all', 'inv_put_one', 'rpt_put'):
        return {op['p'].split('/')[2]: b['resource_provider_generation']}
    if k == 'agg_put' and isinstance(b, dict):
        return {op['p'].split('/')[2]: b['resource_provider_generation']}
    if k == 'reshape':
        return {u: d['resource_provider_generation']
                for u, d in b['inventories'].items()}
    return {}


def carried_consumer_gens(op):
    """{consumer: carried generation} (requests at >= 1.28 only)."""
    if M.ver(op.get('v') or '1.0') < (1, 28):
        return {}
    k = op['kind']
    b = op.get('b')
    if k == 'alloc_put':
        return {M.canon_uuid(op['p'].rsplit('/', 1)[1]):
                b.get('consumer_generation')}
    if k == 'alloc_post':
        return {c: d.get('consumer_generation') for c, d in b.items()}
    if k == 'reshape':
        return {c: d.get('consumer_generation')
                for c, d in b['allocations'].items()}
    return {}


def written_consumers(op):
    k = op['kind']
    b = op.get('b')
    if k == 'alloc_put':
        return [M.canon_uuid(op['p'].rsplit('/', 1)[1])]
    if k == 'alloc_post':
        return list(b)
    if k == 'reshape':
        return list(b['allocations'])
    if k == 'alloc_delete':
        return [M.canon_uuid(op['p'].rsplit('/', 1)[1])]
    return []


def desired_allocs(op, c):
    """What a successful write leaves for consumer c: sorted (rp, rc, n)."""
    k = op['kind']
    b = op.get('b')
    if k == 'alloc_delete':
        return []
    if k == 'alloc_put':
        body = b
    elif k == 'alloc_post':
        body = b[c]
    else:
        body = b['allocations'][c]
    a = body['allocations']
    out = []
    if isinstance(a, list):
        last = {}
        for item in a:
            last[item['resource_provider']['uuid']] = item['resources']
        for rp, res in last.items():
            for rc, n in res.items():
                out.append((rp, rc, n))
    else:
        for rp, d in a.items():
            for rc, n in d['resources'].items():
                out.append((rp, rc, n))
    return sorted(out)


# ---------------------------------------------------------------------------
# schedule strategies
# ---------------------------------------------------------------------------
def make_chooser(rng, strategy, n_tasks):
    if strategy[0] == 'uniform':
        def ch(sim, runnable):
            return runnable[rng.randrange(len(runnable))]
        return ch
    if strategy[0] == 'preempt':
        d = strategy[1]
        order = list(range(n_tasks))
        rng.shuffle(order)
        switch_at = set(rng.sample(range(1, 40), d)) if d else set()
        state = {'cur': None, 'step': 0}

        def ch(sim, runnable):
            state['step'] += 1
            ids = [t.idx for t in runnable]
            cur = state['cur']
            if cur in ids and state['step'] not in switch_at:
                return runnable[ids.index(cur)]
            cands = [t for t in runnable if t.idx != cur] or runnable
            # next in the fixed order
            for o in order:
                for t in cands:
                    if t.idx == o:
                        state['cur'] = o
                        return t
            return cands[0]
        return ch
    if strategy[0] == 'targeted':
        # park task a just before its k-th transaction, run the others to
        # completion (in the given order), resume a.
        a, k, others = strategy[1], strategy[2], strategy[3]

        def ch(sim, runnable):
            by = {t.idx: t for t in runnable}
            ta = by.get(a)
            if ta is not None and ta.ntxn < k:
                return ta
            for o in others:
                if o in by:
                    return by[o]
            return ta if ta is not None else runnable[0]
        return ch
    if strategy[0] == 'targeted2':
        # two pre-emptions: a runs until its k1-th transaction, b until its
        # k2-th, then a to completion, then everybody else
        a, k1, b, k2 = strategy[1], strategy[2], strategy[3], strategy[4]
        state = {'phase': 0}

        def ch(sim, runnable):
            by = {t.idx: t for t in runnable}
            if state['phase'] == 0:
                ta = by.get(a)
                if ta is not None and ta.ntxn < k1:
                    return ta
                state['phase'] = 1
            if state['phase'] == 1:
                tb = by.get(b)
                if tb is not None and tb.ntxn < k2:
                    return tb
                state['phase'] = 2
            if state['phase'] == 2:
                ta = by.get(a)
                if ta is not None:
                    return ta
                state['phase'] = 3
            return by.get(b) or runnable[0]
        return ch
    raise ValueError(strategy)


def pick_strategy(rng, n_tasks, thorough_targeted=None):
    r = rng.random()
    if thorough_targeted is not None:
        return thorough_targeted
    if r < 0.3:
        return ('uniform',)
    if r < 0.6:
        return ('preempt', rng.choice([0, 1, 1, 2, 2, 3]))
    a = rng.randrange(n_tasks)
    others = [i for i in range(n_tasks) if i != a]
    rng.shuffle(others)
    return ('targeted', a, rng.randint(0, 12), others)


# ---------------------------------------------------------------------------
class ConcRun(object):

    def __init__(self, world, seed, focus, knobs=None, setup_ops=None,
                 batch=None, schedule=None, n_batch=None, strategy=None,
                 n_schedules=1, enumerate_targeted=False,
                 enumerate_pairs=False):
        self.enumerate_pairs = enumerate_pairs
        self.n_schedules = n_schedules
        self.enumerate_targeted = enumerate_targeted
        self.serial_cache = {}
        self.serial_codes = {}
        self.schedule_log = []   # per schedule: (strategy, schedule, sig,
        #                          statuses, switches)
        self.world = world
        self.seed = seed
        self.focus = focus          # 'provider' | 'consumer' | 'mixed'
        self.knobs = dict(knobs or {})
        self.fixed_setup = setup_ops
        self.fixed_batch = batch
        self.fixed_schedule = schedule
        self.n_batch = n_batch
        self.strategy = strategy
        self.findings = []
        self.stats = {'requests': 0, 'probes': {}}

    def probe(self, name, n=1):
        self.stats['probes'][name] = self.stats['probes'].get(name, 0) + n

    def add(self, tags, rule, detail, kinds, sig_extra=''):
        sim = getattr(self, 'sim', None)
        self.findings.append({
            'tags': sorted(tags), 'rule': rule, 'detail': detail,
            'kind': '+'.join(sorted(kinds)), 'sig_extra': sig_extra,
            'schedule': list(sim.schedule) if sim is not None else []})

    # ------------------------------------------------------------------
    def _req(self, sim, op):
        w = self.world
        self.stats['requests'] += 1
        return sim.run_inline(lambda: w.request(
            op['m'], op['p'], op.get('b'), op.get('v'))).result

    def setup_state(self):
        w = self.world
        w.restore(w.snap_synced)
        seams.seed_process(self.seed)
        for k, v in self.knobs.items():
            w.conf.set_override(k, v, group='placement')
        conf = w.conf
        self.rng = random.Random(self.seed)
        self.model = M.Model(
            incomplete_project=conf.placement.incomplete_consumer_project_id,
            incomplete_user=conf.placement.incomplete_consumer_user_id)
        sim = seams.Sim(w, seed=self.seed, trace_sql=False)
        self.setup_ops = []
        if self.fixed_setup is not None:
            for op in self.fixed_setup:
                op = copy.deepcopy(op)
                r = self._req(sim, op)
                self.setup_ops.append(workload.op_brief(op))
            self.gen = None
            return True
        rng = self.rng
        if self.focus == 'bigpost':
            return self._setup_bigpost(sim)
        self.gen = workload.Gen(
            rng, n_providers=rng.choice([2, 3, 4]),
            n_consumers=rng.choice([2, 3, 4]),
            invalid_rate=0.05, max_total=rng.choice([4, 8, 12]),
            mix=dict(workload.DEFAULT_MIX, read=0, rp_delete=1,
                     alloc_put=14, alloc_post=6, inv_put_all=10,
                     rp_create=10, trait_put=3, rc_put=2, rc_rename=0))
        n = rng.randint(3, 15)
        if self.focus == 'multi':
            self.gen.P = [workload.puuid(i) for i in range(
                max(3, len(self.gen.P)))]
            self.gen.mix.update(inv_put_all=18, rp_create=14, alloc_put=8)
            n = rng.randint(6, 16)
        for i in range(n):
            op = self.gen.next_op(self.model)
            pre = self.model.clone()
            exp = self.model.apply(op)
            r = self._req(sim, op)
            self.setup_ops.append(workload.op_brief(op))
            if r.status != exp.status:
                # the sequential checks own this; do not build on it
                self.model = pre
                return False
            self.model.adopt(dump.natural(w))
        if True:
            # make sure at least one provider (two for the multi focus)
            # offers something: races for nothing prove nothing
            g = self.gen
            need = 2 if self.focus == 'multi' else 1
            for _ in range(8):
                m = self.model
                have = set(p for (p, rc) in m.inventories
                           if g._room(m, p, rc, set()) > 0)
                if len(have) >= need:
                    break
                ex = [u for u in g.existing_p(m) if u not in have]
                if ex:
                    g.focus_p = [rng.choice(ex)]
                    op = g.g_inv_put_all(m)
                    g.focus_p = None
                else:
                    op = g.g_rp_create(m)
                if op is None or op.get('defect'):
                    continue
                op.setdefault('kind', 'x')
                exp = self.model.apply(op)
                r = self._req(sim, op)
                self.setup_ops.append(workload.op_brief(op))
                if r.status != exp.status:
                    return False
                self.model.adopt(dump.natural(w))
        return True

    # -- one request rewriting more than a hundred consumers -------------
    def _big_body(self, c, amount, v):
        cur = self.model.consumers.get(c)
        b = {'project_id': 'proj-0', 'user_id': 'user-0',
             'consumer_generation': None if cur is None
             else cur['generation'],
             'allocations': {self.big_rp: {'resources': {'VCPU': amount}}}}
        if M.ver(v) >= (1, 38):
            b['consumer_type'] = 'INSTANCE'
        return b

    def _setup_bigpost(self, sim):
        from psim import scale
        rng = self.rng
        w = self.world
        self.gen = workload.Gen(rng, n_providers=1, n_consumers=1)
        n = rng.choice([101, 104, 130])
        self.big_rp = u = workload.puuid(0)
        self.big_v = v = rng.choice(['1.28', '1.34', '1.38', '1.39'])
        self.big_cons = cons = [scale.C(i) for i in range(n)]
        ops = [
            {'m': 'POST', 'p': '/resource_providers', 'v': '1.39',
             'b': {'name': 'big', 'uuid': u}, 'kind': 'rp_create'},
            {'m': 'PUT', 'p': '/resource_providers/%s/inventories' % u,
             'v': '1.39', 'kind': 'inv_put_all',
             'b': {'resource_provider_generation': 0, 'inventories': {
                 'VCPU': {'total': 4 * n + rng.choice([0, 1, 50]),
                          'max_unit': 4 * n}}}},
        ]
        for op in ops:
            exp = self.model.apply(op)
            r = self._req(sim, op)
            self.setup_ops.append(workload.op_brief(op))
            if r.status != exp.status:
                return False
            self.model.adopt(dump.natural(w))
        op = {'m': 'POST', 'p': '/allocations', 'v': v, 'kind': 'alloc_post',
              'b': {c: self._big_body(c, 1, v) for c in cons}}
        exp = self.model.apply(op)
        r = self._req(sim, op)
        self.setup_ops.append(workload.op_brief(op))
        if r.status != exp.status:
            return False
        self.model.adopt(dump.natural(w))
        return True

    def _batch_bigpost(self):
        rng = self.rng
        v = self.big_v
        cons = self.big_cons
        amount = rng.choice([2, 3])
        if rng.random() < 0.25:
            big = {c: dict(self._big_body(c, amount, v), allocations={})
                   for c in cons}     # everybody is emptied
        else:
            big = {c: self._big_body(c, amount, v) for c in cons}
        batch = [{'m': 'POST', 'p': '/allocations', 'v': v,
                  'kind': 'alloc_post', 'b': big}]
        n_small = rng.choice([1, 1, 2])
        where = [rng.randrange(0, 100), rng.randrange(0, len(cons)),
                 len(cons) - 1]
        for i in range(n_small):
            c = cons[where[(i + rng.randrange(3)) % 3] if i else
                     rng.choice(where[:2])]
            if rng.random() < 0.8:
                batch.append({'m': 'PUT', 'p': '/allocations/' + c, 'v': v,
                              'kind': 'alloc_put',
                              'b': self._big_body(c, 4, v)})
            else:
                batch.append({'m': 'POST', 'p': '/allocations', 'v': v,
                              'kind': 'alloc_post',
                              'b': {c: dict(self._big_body(c, 4, v),
                                            allocations={})}})
        if rng.random() < 0.5:
            batch.reverse()
        return batch

    def gen_batch(self):
        rng = self.rng
        g = self.gen
        m = self.model
        if self.focus == 'bigpost':
            return self._batch_bigpost()
        n = self.n_batch or rng.choice([2, 2, 2, 3])
        g.invalid_rate = 0.2
        ex = g.existing_p(m)
        if not ex:
            return None
        batch = []
        if self.focus == 'provider':
            u = rng.choice(ex)
            g.focus_p = [u]
            kinds = ['inv_put_all', 'inv_put_all', 'inv_put_one', 'rpt_put',
                     'rpt_put', 'agg_put', 'reshape', 'reshape', 'inv_post',
                     'inv_delete_one', 'inv_delete_all', 'rpt_delete',
                     'alloc_put', 'alloc_post']
            if rng.random() < 0.3:
                # same kind twice: the classic same-generation race
                k0 = rng.choice(kinds[:8])
                want = [k0] * n
            else:
                want = [rng.choice(kinds) for _ in range(n)]
            for k in want:
                op = None
                for _ in range(10):
                    if k == 'agg_put':
                        g.versions = ['1.19', '1.28', '1.39']
                    elif k in ('alloc_put', 'alloc_post', 'reshape'):
                        # C06/C07 speak about writes carrying consumer
                        # generations (>= 1.28); older writes adopt whatever
                        # consumer record they find
                        g.versions = ['1.28', '1.30', '1.34', '1.38',
                                      '1.39']
                    op = getattr(g, 'g_' + k)(m)
                    g.versions = None
                    if op is not None:
                        break
                    k = rng.choice(kinds)
                if op is None:
                    return None
                op.setdefault('kind', k)
                batch.append(op)
        elif self.focus == 'move':
            # PUT /resource_providers/{u} (rename, move, detach: carries no
            # generation and must not disturb it) racing guarded and
            # self-derived writes to that provider
            u = rng.choice(ex)
            g.focus_p = [u]
            mv = None
            for _ in range(20):
                cand = g.g_rp_update(m)
                if cand is not None and not cand.get('defect') and \
                        cand.get('note') in ('reparent', 'unparent', None):
                    mv = cand
                    break
            if mv is None:
                return None
            mv['kind'] = 'rp_update'
            batch.append(mv)
            kinds = ['inv_put_all', 'inv_put_all', 'inv_put_one', 'rpt_put',
                     'agg_put', 'reshape', 'inv_post', 'inv_delete_one',
                     'rpt_delete', 'alloc_put', 'alloc_post']
            for i in range(1, max(n, 2)):
                k = rng.choice(kinds)
                op = None
                for _ in range(10):
                    if k == 'agg_put':
                        g.versions = ['1.19', '1.28', '1.39']
                    elif k in ('alloc_put', 'alloc_post', 'reshape'):
                        g.versions = ['1.28', '1.30', '1.34', '1.38',
                                      '1.39']
                    op = getattr(g, 'g_' + k)(m)
                    g.versions = None
                    if op is not None:
                        break
                    k = rng.choice(kinds)
                if op is None:
                    return None
                op.setdefault('kind', k)
                batch.append(op)
            if rng.random() < 0.5:
                batch.reverse()
        elif self.focus == 'consumer' and rng.random() < 0.08 and \
                m.inventories and \
                [x for x in g.C if x not in m.consumers]:
            # a first write for a consumer, racing a write that carries the
            # fabricated generation 0 for it AND is refused for another
            # reason (over capacity): refused it must stay without effect -
            # also on the record the first request has just created
            c = rng.choice([x for x in g.C if x not in m.consumers])
            allC = g.C
            g.C = [c]
            first = None
            for _ in range(10):
                first = g.g_alloc_put(m, force_version=rng.choice(
                    ['1.28', '1.36', '1.39']))
                if first is not None and not first.get('defect') and \
                        first['b'].get('allocations'):
                    break
                first = None
            g.C = allC
            if first is None:
                return None
            rp_, rc_ = rng.choice(sorted(
                k for k in m.inventories if k[0] in m.providers))
            v2 = rng.choice(['1.28', '1.34', '1.38', '1.39'])
            entry = {'allocations': {rp_: {'resources': {rc_: 10 ** 6}}},
                     'project_id': 'proj-0', 'user_id': 'user-0',
                     'consumer_generation': 0}
            if M.ver(v2) >= (1, 38):
                entry['consumer_type'] = 'INSTANCE'
            second = {'m': 'POST', 'p': '/allocations', 'v': v2,
                      'b': {c: entry}, 'kind': 'alloc_post'}
            if rng.random() < 0.4:
                second = {'m': 'POST', 'p': '/reshaper', 'v': rng.choice(
                    ['1.30', '1.38']) if M.ver(v2) < (1, 38) else '1.39',
                    'kind': 'reshape',
                    'b': {'inventories': {}, 'allocations': {c: dict(
                        entry)}}}
                if M.ver(second['v']) < (1, 38):
                    second['b']['allocations'][c].pop('consumer_type', None)
                else:
                    second['b']['allocations'][c]['consumer_type'] = \
                        'INSTANCE'
            first['kind'] = 'alloc_put'
            batch = [first, second]
            if rng.random() < 0.5:
                batch.reverse()
            self.probe('failing_adopter_batches')
        elif self.focus == 'consumer':
            c = rng.choice(g.C)
            allC = g.C
            vers = ['1.28', '1.30', '1.34', '1.36', '1.38', '1.39']
            for i in range(n):
                r = rng.random()
                op = None
                for _ in range(10):
                    if r < 0.6:
                        g.C = [c]
                        op = g.g_alloc_put(m, force_version=rng.choice(vers))
                    elif r < 0.85:
                        g.C = [c] + [x for x in allC if x != c][:1]
                        g.versions = vers
                        op = g.g_alloc_post(m)
                        g.versions = None
                        if op is not None and c not in op['b']:
                            op = None
                    else:
                        g.C = [c]
                        g.versions = vers
                        op = g.g_reshape(m)
                        g.versions = None
                        if op is not None and c not in op['b']['allocations']:
                            op = None
                    if op is not None:
                        break
                    r = rng.random() * 0.6
                g.C = allC
                if op is None:
                    return None
                batch.append(op)
        elif self.focus == 'reshape':
            # the reshaper - the longest write path - racing a guarded write
            # or a claim on one of its providers
            have = sorted(set(p for (p, rc) in m.inventories if p in ex))
            if not have:
                return None
            u = rng.choice(have)
            op = None
            for _ in range(12):
                g.focus_p = [u] if rng.random() < 0.7 else None
                g.versions = ['1.30', '1.34', '1.38', '1.39']
                old_rate = g.invalid_rate
                g.invalid_rate = 0.05
                cand = g.g_reshape(m)
                g.invalid_rate = old_rate
                g.versions = None
                if cand is not None and u in cand['b']['inventories']:
                    op = cand
                    break
            if op is None:
                return None
            op['kind'] = 'reshape'
            batch.append(op)
            kinds = ['inv_put_all', 'inv_put_one', 'rpt_put', 'rpt_put',
                     'agg_put', 'alloc_put', 'alloc_post', 'reshape']
            allC = g.C
            for i in range(1, n):
                k = rng.choice(kinds)
                op2 = None
                for _ in range(10):
                    g.focus_p = [u]
                    if k == 'agg_put':
                        g.versions = ['1.19', '1.28', '1.39']
                    elif k in ('alloc_put', 'alloc_post', 'reshape'):
                        g.versions = ['1.30', '1.34', '1.38', '1.39']
                    op2 = getattr(g, 'g_' + k)(m)
                    g.versions = None
                    if op2 is not None:
                        break
                    k = rng.choice(kinds)
                if op2 is None:
                    return None
                op2.setdefault('kind', k)
                batch.append(op2)
            if rng.random() < 0.5:
                batch.reverse()
        elif self.focus == 'multi':
            # a claim spanning two providers racing a write to one of them:
            # the server-side retry loop of replace_all() and the
            # per-provider compare-and-swap
            have = sorted(set(p for (p, rc) in m.inventories
                              if p in ex and g._room(m, p, rc, set()) > 0))
            if len(have) < 2:
                return None
            u1, u2 = rng.sample(have, 2)
            cs = list(g.C)
            rng.shuffle(cs)
            allC = g.C
            c = cs[0]
            alloc = g.spanning_alloc(m, [u1, u2], {c})
            op = None
            if alloc is not None:
                v = rng.choice(['1.28', '1.34', '1.38', '1.39'])
                body = g._alloc_body(v, alloc, c, m, 'right')
                if rng.random() < 0.7:
                    op = {'m': 'PUT', 'p': '/allocations/' + c, 'v': v,
                          'b': body, 'kind': 'alloc_put'}
                else:
                    op = {'m': 'POST', 'p': '/allocations', 'v': v,
                          'b': {c: body}, 'kind': 'alloc_post'}
            if op is None:
                return None
            batch.append(op)
            kinds = ['inv_put_all', 'inv_put_one', 'rpt_put', 'agg_put',
                     'alloc_put', 'alloc_put', 'reshape']
            for i in range(1, n):
                k = rng.choice(kinds)
                op2 = None
                for _ in range(10):
                    g.focus_p = [rng.choice([u1, u2])]
                    if k == 'agg_put':
                        g.versions = ['1.19', '1.28', '1.39']
                    elif k in ('alloc_put', 'reshape'):
                        g.versions = ['1.30', '1.34', '1.38', '1.39']
                        g.C = [cs[i % len(cs)]]
                    op2 = getattr(g, 'g_' + k)(m)
                    g.versions = None
                    g.C = allC
                    if op2 is not None:
                        break
                    k = rng.choice(kinds)
                if op2 is None:
                    return None
                op2.setdefault('kind', k)
                batch.append(op2)
            if rng.random() < 0.5:
                batch.reverse()
        else:  # mixed: claims racing each other and provider updates
            u = rng.choice(ex)
            g.focus_p = [u] if rng.random() < 0.7 else None
            cs = list(g.C)
            rng.shuffle(cs)
            # exactly the operations C07 names: allocation writes carrying
            # consumer generations and generation-guarded inventory, trait
            # and aggregate updates
            kinds = ['alloc_put', 'alloc_put', 'alloc_put', 'alloc_post',
                     'inv_put_all', 'inv_put_one', 'rpt_put', 'agg_put',
                     'reshape']
            for i in range(n):
                k = rng.choice(kinds if i else kinds[:4])
                op = None
                for _ in range(10):
                    if k == 'agg_put':
                        g.versions = ['1.19', '1.28', '1.39']
                        op = g.g_agg_put(m)
                        g.versions = None
                    elif k in ('alloc_put', 'alloc_delete'):
                        allC = g.C
                        g.C = [cs[i % len(cs)]] if rng.random() < 0.7 \
                            else allC
                        g.versions = ['1.28', '1.34', '1.38', '1.39']
                        op = getattr(g, 'g_' + k)(m)
                        g.versions = None
                        g.C = allC
                    else:
                        if k in ('alloc_post', 'reshape'):
                            g.versions = ['1.30', '1.34', '1.38', '1.39']
                        op = getattr(g, 'g_' + k)(m)
                        g.versions = None
                    if op is not None:
                        break
                    k = rng.choice(kinds[:4])
                if op is None:
                    return None
                op.setdefault('kind', k)
                batch.append(op)
        g.focus_p = None
        from psim import profiles
        for op in batch:
            op.setdefault('kind', profiles._kind_of(op))
        return batch

    # ------------------------------------------------------------------
    def run_concurrent(self, batch):
        w = self.world
        sim = seams.Sim(w, seed=self.seed ^ 0xC0C0, trace_sql=True,
                        commit_log=True, schedule=self.fixed_schedule)
        sim.prime_commit_log()
        self.state0 = sim._last_state
        if self.fixed_schedule is None:
            if self.strategy is None:
                self.strategy = pick_strategy(self.rng, len(batch))
            sim.chooser = make_chooser(self.rng, self.strategy, len(batch))
        end_idx = {}

        def mk(op, i):
            def fn():
                r = w.request(op['m'], op['p'], op.get('b'), op.get('v'))
                end_idx[i] = len(sim.commit_log)
                return r
            return fn
        tasks = [sim.spawn(mk(op, i)) for i, op in enumerate(batch)]
        sim.run()
        self.stats['requests'] += len(batch)
        self.sim = sim
        self.end_idx = end_idx
        for t in tasks:
            # server-side retry: inside one transaction the allocations are
            # deleted again after a provider generation update was attempted
            seen_upd = False
            for (tt, verb, table) in t.ops:
                if tt == 'B' and verb == 'top':
                    seen_upd = False
                elif tt == 'S' and verb == 'UPDATE' and \
                        table == 'resource_providers':
                    seen_upd = True
                elif tt == 'S' and verb == 'DELETE' and \
                        table == 'allocations' and seen_upd:
                    self.probe('server_side_retry_entered')
                    break
        return [t.result for t in tasks], tasks

    def serial(self, batch, order):
        """Execute the given requests one after another from the snapshot."""
        key = tuple(order)
        hit = self.serial_cache.get(key)
        if hit is not None:
            return hit
        w = self.world
        w.restore(self.snap0)
        sim = seams.Sim(w, seed=1, trace_sql=False)
        out = {}
        codes = {}
        for i in order:
            op = batch[i]
            r = self._req(sim, op)
            out[i] = r.status
            codes[i] = r.error_code()
        res = (out, dump.natural(w))
        self.serial_cache[key] = res
        self.serial_codes[key] = codes
        return res

    # ------------------------------------------------------------------
    def run(self):
        try:
            return self._run()
        finally:
            for k in self.knobs:
                self.world.conf.clear_override(k, group='placement')

    def _run(self):
        w = self.world
        if not self.setup_state():
            self.stats['setup_anomaly'] = 1
            return self.findings
        batch = self.fixed_batch
        if batch is None:
            batch = self.gen_batch()
            if batch is None:
                self.stats['no_batch'] = 1
                return self.findings
        else:
            batch = copy.deepcopy(batch)
        self.batch = batch
        kinds = [op['kind'] for op in batch]
        self.snap0 = w.snapshot()
        nat0 = dump.natural(w)
        if self.fixed_schedule is not None:
            strategies = [None]
        elif self.enumerate_targeted:
            strategies = [('preempt', 0)]
        else:
            first = self.strategy
            strategies = [first] + [None] * (self.n_schedules - 1)
        seen_sigs = set()
        n_done = 0
        while strategies:
            strat = strategies.pop(0)
            if n_done:
                w.restore(self.snap0)
            self.strategy = strat
            before = len(self.findings)
            tasks = self.judge(batch, kinds, nat0)
            n_done += 1
            sig = (tuple(self.sim.sig), tuple(self.statuses))
            self.schedule_log.append({
                'strategy': list(self.strategy) if self.strategy else None,
                'schedule': list(self.sim.schedule),
                'sig': repr(sig), 'statuses': list(self.statuses),
                'switches': self.switches,
                'new': sig not in seen_sigs})
            seen_sigs.add(sig)
            if self.focus == 'bigpost' and n_done == 1 and \
                    self.fixed_schedule is None:
                # hundreds of transactions per request: park each request
                # before its first, a middle and each of its last
                # transactions, the others run meanwhile
                n = len(batch)
                for a in range(n):
                    others = [i for i in range(n) if i != a]
                    nt = tasks[a].ntxn
                    ks = sorted(set(k for k in (
                        0, 1, nt // 2, nt - 3, nt - 2, nt - 1, nt)
                        if 0 <= k <= nt))
                    tg = []
                    for k in ks:
                        tg.append(('targeted', a, k, list(others)))
                    strategies = tg + strategies
                strategies = strategies[:14]
            if self.enumerate_targeted and n_done == 1 and \
                    self.focus != 'bigpost':
                # every single-pre-emption schedule: park a before its k-th
                # transaction, run the others (both orders), resume a
                n = len(batch)
                for a in range(n):
                    others = [i for i in range(n) if i != a]
                    orders = [others] if len(others) < 2 else [
                        others, list(reversed(others))]
                    for k in range(0, tasks[a].ntxn + 1):
                        for o in orders:
                            strategies.append(('targeted', a, k, list(o)))
                for _ in range(max(0, self.n_schedules)):
                    strategies.append(('uniform',))
                if self.enumerate_pairs and n >= 2:
                    # every schedule with two pre-emptions between the first
                    # two requests of the batch (both roles)
                    for (a, b) in ((0, 1), (1, 0)):
                        for k1 in range(1, tasks[a].ntxn + 1):
                            for k2 in range(1, tasks[b].ntxn + 1):
                                strategies.append(
                                    ('targeted2', a, k1, b, k2))
            if len(self.findings) > before and self.fixed_schedule is None:
                break   # report the first failing schedule of this batch
        return self.findings

    def judge(self, batch, kinds, nat0):
        """Run the batch under one schedule and evaluate every oracle."""
        w = self.world
        resps, tasks = self.run_concurrent(batch)
        natC = dump.natural(w)
        coreC = dump.natural_core(natC, generations=False)
        statuses = [r.status for r in resps]
        self.statuses = statuses
        succ = [i for i, s in enumerate(statuses) if s < 400]
        fail = [i for i, s in enumerate(statuses) if s >= 400]
        switches = sum(1 for a, b in zip(self.sim.schedule,
                                         self.sim.schedule[1:]) if a != b)
        self.switches = switches
        if switches > len(batch) - 1:
            self.probe('interleaved_runs')

        # ---- 5xx ---------------------------------------------------------
        for i, r in enumerate(resps):
            if r.status >= 500:
                self.add({'C05', 'C06', 'C07'}, 'server-error',
                         'request %d (%s) answered %d: %s' % (
                             i, kinds[i], r.status, (r.body or b'')[:300]),
                         [kinds[i]])
        # ---- invariants on the final state -----------------------------------
        for msg in inv.inv_refs(natC):
            self.add({'C07', 'C08'}, 'dangling', msg, kinds)
        for msg in inv.inv_consumer_iff_alloc(natC):
            self.add({'C07'}, 'consumer-iff-allocations', msg, kinds)
        for msg in inv.inv_forest(natC):
            self.add({'C07'}, 'forest', msg, kinds)

        # ---- serial-permutation replay (C07 / C05) -----------------------------
        def moved(n):
            """Which generations moved relative to the start state (robust
            against implementations that bump more than once)."""
            out = set()
            for key in ('providers', 'consumers'):
                for u, obj in n[key].items():
                    o0 = nat0[key].get(u)
                    if o0 is not None and \
                            obj['generation'] != o0['generation']:
                        out.add((key, u))
            return out
        ok_perm = None
        state_perm = None
        serial_seen = []
        movedC = moved(natC)
        for order in itertools.permutations(succ):
            st, nat = self.serial(batch, order)
            core = dump.natural_core(nat, generations=False)
            all_ok = all(s < 400 for s in st.values())
            serial_seen.append((order, st, core))
            if all_ok and core == coreC:
                state_perm = (order, nat)
                if moved(nat) == movedC:
                    ok_perm = order
                    break
        if ok_perm is None and state_perm is not None:
            # data equal to a serial execution, but a generation that the
            # serial execution moves stayed put (or the reverse)
            order, nat = state_perm
            ms = moved(nat)
            tags = {'C05', 'C10'}
            if all(k in self.C07_KINDS for k in kinds):
                tags.add('C07')
            self.add(tags, 'generation-movement-differs-from-serial',
                     'serial order %r moves %r, the concurrent execution '
                     'moved %r' % (list(order), sorted(ms - movedC),
                                   sorted(movedC - ms)),
                     [kinds[i] for i in succ])
            ok_perm = order
        if not succ:
            # nothing succeeded: state must be the start state
            if coreC != dump.natural_core(nat0, generations=False):
                self.add({'C07', 'C05', 'C06'}, 'failed-requests-changed-state',
                         '; '.join(dump.diff(dump.natural_core(
                             nat0, generations=False), coreC)[:6]), kinds)
        elif ok_perm is None:
            self.diagnose_unserialisable(batch, kinds, succ, serial_seen,
                                         coreC, natC, tasks)
        else:
            # over-commit only if the serial order has it too
            ovC = inv.overcommitted(natC)
            ovS = inv.overcommitted(nat)
            extra = set(ovC) - set(ovS)
            if extra:
                self.add({'C07', 'C01'}, 'over-committed-unlike-serial',
                         repr(sorted(extra)), kinds)
        # ---- failed requests: status explainable? ---------------------------
        self.check_failure_statuses(batch, kinds, resps, fail)
        self.check_failed_commits(batch, kinds, fail)
        # ---- CAS specifications by commit order -------------------------------
        self.check_provider_cas(batch, kinds, resps, tasks)
        self.check_consumer_cas(batch, kinds, resps, tasks, natC)
        return tasks

    def check_failed_commits(self, batch, kinds, fail):
        """What a request answered with an error committed on the way, by
        the commit log: it may create the consumer records it needs and take
        them away again, nothing else - in particular it may not remove a
        consumer record it did not create (another request's), nor touch
        allocations or provider generations."""
        prev = self.state0
        created = {}
        for e in self.sim.commit_log:
            cur = e['state']
            t = e['task']
            if e['changed'] and t in fail:
                mine = created.setdefault(t, set())
                new = set(cur['cons']) - set(prev['cons'])
                gone = set(prev['cons']) - set(cur['cons'])
                mine |= new
                foreign = gone - mine
                mine -= gone
                what = []
                if foreign:
                    what.append('removed consumer record(s) %s it had not '
                                'created' % sorted(foreign))
                if cur['allocs'] != prev['allocs']:
                    what.append('changed allocations')
                if cur['prov'] != prev['prov']:
                    what.append('changed provider generations %r' % sorted(
                        u for u in set(cur['prov']) | set(prev['prov'])
                        if cur['prov'].get(u) != prev['prov'].get(u)))
                if what:
                    tags = {'C07'} if all(k in self.C07_KINDS
                                          for k in kinds) else {'C05'}
                    if carried_consumer_gens(batch[t]) or \
                            kinds[t] in ('alloc_put', 'alloc_post',
                                         'reshape'):
                        tags.add('C06')
                    self.add(tags, 'failed-request-committed-changes',
                             'request %d (%s), answered with an error, '
                             'committed a transaction that %s' % (
                                 t, kinds[t], '; '.join(what)), kinds)
                    break
            prev = cur

    # ------------------------------------------------------------------
    C07_KINDS = ('alloc_put', 'alloc_post', 'reshape', 'inv_put_all',
                 'inv_put_one', 'rpt_put', 'agg_put')

    def noop_clears(self, batch, succ, tasks):
        """Successful writes whose payload only clears consumers and which
        committed no data at all."""
        out = []
        for i in succ:
            cs = written_consumers(batch[i])
            if batch[i]['kind'] not in ('alloc_put', 'alloc_post'):
                continue
            if cs and all(not desired_allocs(batch[i], c) for c in cs) \
                    and tasks[i].data_commits == 0:
                out.append(i)
        return out

    def diagnose_unserialisable(self, batch, kinds, succ, serial_seen, coreC,
                                natC, tasks):
        # C07 speaks about allocation writes and generation-guarded updates;
        # batches with self-derived provider writes belong to C05 only
        tags = {'C07'} if all(k in self.C07_KINDS for k in kinds) else set()
        # classify (only named classes can match a known finding)
        cls = 'other'
        holders = set(c for (c, rp, rc, n) in natC['allocations'])
        if any(c not in natC['consumers'] for c in holders):
            cls = 'orphan-allocation'
        else:
            cg = {}
            for i in succ:
                for c, g in carried_consumer_gens(batch[i]).items():
                    cg.setdefault((c, g), []).append(i)
            if any(len(v) > 1 for v in cg.values()):
                cls = 'two-successes-same-consumer-generation'
                tags.add('C06')
            pg = {}
            for i in succ:
                for u, g in carried_provider_gens(batch[i]).items():
                    pg.setdefault((u, g), []).append(i)
            if any(len(v) > 1 for v in pg.values()):
                cls = 'two-successes-same-provider-generation'
                tags.add('C05')
        if any(k in PROVIDER_GEN_KINDS or k.startswith('inv_') or
               k.startswith('rpt_') for k in kinds):
            tags.add('C05')
        if any(carried_consumer_gens(batch[i]) for i in succ):
            tags.add('C06')
        nc = self.noop_clears(batch, succ, tasks)
        if nc:
            rest = [i for i in succ if i not in nc]
            for order in itertools.permutations(rest):
                st, nat = self.serial(batch, order)
                if all(x < 400 for x in st.values()) and dump.natural_core(
                        nat, generations=False) == coreC:
                    cls = 'noop-clear-on-stale-consumer-generation'
                    tags = {'C06', 'C07'} & (tags | {'C06'})
                    if not all(k in self.C07_KINDS for k in kinds):
                        tags.discard('C07')
                    break
        if cls != 'orphan-allocation':
            # a success that carried the fabricated generation 0 for a
            # consumer that did not exist at the start: it matched the
            # record another in-flight request had just auto-created.
            # Classified so only if some serial order fails exactly those
            # requests (with 409) and lets every other success succeed.
            root = set(i for i in succ
                       for c, g in carried_consumer_gens(batch[i]).items()
                       if g == 0 and c not in self.state0['cons'])
            # ... and the requests that then built on it with the follow-on
            # generations 1, 2, ... of that same never-existing consumer
            g0 = set(i for i in succ
                     for c, g in carried_consumer_gens(batch[i]).items()
                     if g is not None and c not in self.state0['cons'])
            # ... and the guarded provider writes that carried a generation
            # the provider only reached through such a success (a "future"
            # generation at the start): in a serial order they fall with it
            future = set(i for i in succ
                         for u, g in carried_provider_gens(batch[i]).items()
                         if g != self.state0['prov'].get(u))
            if root:
                for order, st, core in serial_seen:
                    bad = set(i for i, x in st.items() if x >= 400)
                    if bad and bad & g0 and bad <= (g0 | future) and \
                            all(st[i] == 409 for i in bad):
                        cls = 'generation-0-matched-transient-consumer'
                        tags = {'C07'}
                        break
        best = None
        for order, st, core in serial_seen:
            d = dump.diff(core, coreC)
            bad = [i for i, s in st.items() if s >= 400]
            desc = 'order %r: statuses %r%s' % (
                list(order), st, ('; diff ' + '; '.join(d[:4])) if d else '')
            if best is None or len(d) + 10 * len(bad) < best[0]:
                best = (len(d) + 10 * len(bad), desc)
        self.add(tags, 'not-serialisable',
                 'successful requests %r (%s) equal no serial execution '
                 '[%s]; closest %s' % (
                     succ, [kinds[i] for i in succ], cls, best[1]),
                 [kinds[i] for i in succ], sig_extra=cls)

    def check_failure_statuses(self, batch, kinds, resps, fail):
        """A failure must be a 409 conflict, or a status the same request
        gets in SOME serial position; anything else is an artefact of the
        race (e.g. 404 'no such consumer' for a write)."""
        for i in fail:
            r = resps[i]
            if r.status >= 500:
                continue
            v = M.ver(batch[i].get('v') or '1.0')
            code = r.error_code()
            if r.status == 409:
                # a conflict; which of several simultaneous reasons
                # (stale generation, inventory in use, no room left) the
                # implementation reports first is not part of the oracle
                continue
            others = [j for j in range(len(batch)) if j != i]
            explained = False
            for k in range(len(others) + 1):
                for pre in itertools.permutations(others, k):
                    order = list(pre) + [i]
                    st, _ = self.serial(batch, order)
                    if st[i] == r.status:
                        explained = True
                        break
                if explained:
                    break
            if not explained:
                self.add({'C07', 'C05' if carried_provider_gens(batch[i])
                          else 'C06'}, 'unexplained-failure-status',
                         'request %d (%s) answered %d (%s); no serial '
                         'position gives that status' % (
                             i, kinds[i], r.status,
                             (r.body or b'')[:160]), [kinds[i]])

    # -- helpers over the commit log ---------------------------------------
    def _state_before(self, idx):
        return self.sim.commit_log[idx - 1]['state'] if idx > 0 \
            else self.state0

    def check_provider_cas(self, batch, kinds, resps, tasks):
        log = self.sim.commit_log
        winners = {}
        for i, op in enumerate(batch):
            gens = carried_provider_gens(op)
            if not gens:
                continue
            r = resps[i]
            v = M.ver(op.get('v') or '1.0')
            # the request's data commits
            mine = [n for n, e in enumerate(log)
                    if e['task'] == i and e['changed']]
            if r.status < 400:
                for u, g in gens.items():
                    if mine:
                        before = self._state_before(mine[0])['prov'].get(u)
                        if before != g:
                            self.add({'C05'}, 'cas-applied-on-stale-generation',
                                     'request %d (%s) carried generation %r '
                                     'for %s but the provider was at %r when '
                                     'its write committed' % (
                                         i, kinds[i], g, u, before),
                                     [kinds[i]])
                        winners.setdefault((u, g), []).append(i)
                    else:
                        cur = self._state_before(
                            self.end_idx.get(i, len(log)))['prov'].get(u)
                        if cur != g:
                            self.probe('noop_success_on_stale_generation')
                            self.add({'C05'}, 'noop-success-on-stale-'
                                     'generation',
                                     'request %d (%s) carried generation %r '
                                     'for %s, changed nothing, answered %d '
                                     'while the provider was at %r' % (
                                         i, kinds[i], g, u, r.status, cur),
                                     [kinds[i]])
                        body_g = None
                        if isinstance(r.json, dict):
                            body_g = r.json.get('resource_provider_generation')
                        if body_g is not None and body_g != cur:
                            self.add({'C05', 'C10'}, 'response-generation-'
                                     'not-stored', 'request %d (%s) reports '
                                     'generation %r, stored %r' % (
                                         i, kinds[i], body_g, cur),
                                     [kinds[i]])
            else:
                if mine:
                    # net effect is judged by the serial replay; a failed
                    # generation-carrying write must not commit provider data
                    moved = any(
                        self._state_before(n)['prov'].get(u) !=
                        log[n]['state']['prov'].get(u)
                        for n in mine for u in gens)
                    if moved:
                        self.add({'C05'}, 'failed-cas-committed',
                                 'request %d (%s) answered %d but committed '
                                 'a generation change' % (
                                     i, kinds[i], r.status), [kinds[i]])
                stale = any(self._state_before(
                    self.end_idx.get(i, len(log)))['prov'].get(u) != g
                    for u, g in gens.items())
                if stale:
                    self.probe('cas_lost')
        for (u, g), lst in winners.items():
            if len(lst) > 1:
                self.add({'C05'}, 'two-winners-same-generation',
                         'requests %r all carried generation %r for %s and '
                         'all succeeded with a data commit' % (lst, g, u),
                         [kinds[i] for i in lst])

    def check_consumer_cas(self, batch, kinds, resps, tasks, natC):
        log = self.sim.commit_log
        # consumers written by at least one generation-carrying request
        cons = set()
        for op in batch:
            cons |= set(carried_consumer_gens(op))
        for c in cons:
            def cstate(st):
                return (st['cons'].get(c), tuple(st['allocs'].get(c, ())))
            init = cstate(self.state0)
            # successful writers of c, ordered by their last commit that
            # changed c
            events = []
            for i, op in enumerate(batch):
                if c not in written_consumers(op):
                    continue
                if resps[i].status >= 400:
                    continue
                last = None
                for n, e in enumerate(log):
                    if e['task'] == i and cstate(e['state']) != cstate(
                            self._state_before(n)):
                        last = n
                if last is None:
                    last = self.end_idx.get(i, len(log)) - 0.5
                events.append((last, i))
            events.sort()
            last_writer = None
            for (n, i) in events:
                op = batch[i]
                cg = carried_consumer_gens(op)
                # the consumer's STORED generation immediately before the
                # write commit (what the property speaks about); a record
                # this very request auto-created counts as "does not exist"
                if isinstance(n, int):
                    state = self._state_before(n)['cons'].get(c)
                    own = any(
                        e['task'] == i and
                        c not in self._state_before(m_)['cons'] and
                        c in e['state']['cons']
                        for m_, e in enumerate(log[:n]))
                    if own and state == 0:
                        state = None
                else:
                    state = self._state_before(
                        self.end_idx.get(i, len(log)))['cons'].get(c)
                if c in cg and cg[c] != state and not isinstance(n, int) \
                        and not desired_allocs(op, c) \
                        and tasks[i].data_commits == 0:
                    self.probe('noop_clear_on_stale_consumer_generation')
                    self.add({'C06'}, 'noop-clear-on-stale-consumer-'
                             'generation',
                             'request %d (%s) carried consumer_generation %r '
                             'for %s with empty allocations, found nothing '
                             'to remove, committed nothing and answered %d '
                             'while the consumer was at %r' % (
                                 i, kinds[i], cg[c], c, resps[i].status,
                                 state), [kinds[i]],
                             sig_extra='noop-clear')
                elif c in cg and cg[c] != state:
                    self.add({'C06'}, 'consumer-cas-applied-on-stale-'
                             'generation',
                             'request %d (%s) carried consumer_generation'
                             ' %r for %s and succeeded, but in commit '
                             'order the consumer was at %r' % (
                                 i, kinds[i], cg[c], c, state),
                             [kinds[j] for _, j in events],
                             sig_extra='stale-consumer-generation')
                last_writer = i
            if last_writer is not None and len(events) >= 1:
                want = desired_allocs(batch[last_writer], c)
                have = sorted((rp, rc, n) for (cc, rp, rc, n) in
                              natC['allocations'] if cc == c)
                if want != have:
                    self.add({'C06'}, 'final-allocations-not-last-success',
                             'consumer %s: last successful writer in commit '
                             'order is request %d (%s) wanting %r, stored %r'
                             % (c, last_writer, kinds[last_writer], want,
                                have), [kinds[j] for _, j in events])
            # failures: 409 + code
            for i, op in enumerate(batch):
                cg = carried_consumer_gens(op)
                if c not in cg or resps[i].status < 400:
                    continue
                r = resps[i]
                if r.status == 409:
                    self.probe('consumer_conflict_409')
