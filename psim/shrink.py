"""Minimisation of replay descriptions (delta debugging).

A candidate is kept only while the SAME signature (rule + request kind)
persists when it is replayed.
"""
import copy


def ddmin(items, test, keep_last=1):
    """Classic ddmin over a list; the last ``keep_last`` items are pinned."""
    if len(items) <= keep_last:
        return items
    head = list(items[:len(items) - keep_last])
    tail = list(items[len(items) - keep_last:])
    n = 2
    while len(head) >= 1:
        chunk = max(1, len(head) // n)
        reduced = False
        for i in range(0, len(head), chunk):
            cand = head[:i] + head[i + chunk:]
            if test(cand + tail):
                head = cand
                n = max(n - 1, 2)
                reduced = True
                break
        if not reduced:
            if chunk == 1:
                break
            n = min(n * 2, len(head))
    return head + tail


def shrink_seq(rp, still_fails):
    rp = copy.deepcopy(rp)

    def test(ops):
        cand = copy.deepcopy(rp)
        cand['ops'] = ops
        return still_fails(cand)
    rp['ops'] = ddmin(rp['ops'], test)
    return rp


def shrink_conc(rp, still_fails):
    rp = copy.deepcopy(rp)

    def test_setup(ops):
        cand = copy.deepcopy(rp)
        cand['setup'] = ops
        return still_fails(cand)
    rp['setup'] = ddmin(rp['setup'], test_setup, keep_last=0)
    # drop one request of a 3-batch
    if len(rp['batch']) > 2:
        for i in range(len(rp['batch'])):
            cand = copy.deepcopy(rp)
            del cand['batch'][i]
            # renumber the schedule
            sched = []
            for t in cand['schedule']:
                if t == i:
                    continue
                sched.append(t - 1 if t > i else t)
            cand['schedule'] = sched
            if still_fails(cand):
                rp = cand
                break
    # remove pre-emptions: move towards run-to-completion
    changed = True
    while changed:
        changed = False
        s = rp['schedule']
        for i in range(1, len(s)):
            if s[i] != s[i - 1]:
                # try to let s[i-1] continue instead
                cand = copy.deepcopy(rp)
                j = None
                for k in range(i, len(s)):
                    if s[k] == s[i - 1]:
                        j = k
                        break
                if j is None:
                    continue
                ns = list(s)
                ns.insert(i, ns.pop(j))
                if ns == s:
                    continue
                cand['schedule'] = ns
                if still_fails(cand):
                    rp = cand
                    changed = True
                    break
    return rp


def shrink_fault(rp, still_fails):
    rp = copy.deepcopy(rp)

    def test_setup(ops):
        cand = copy.deepcopy(rp)
        cand['setup'] = ops
        return still_fails(cand)
    rp['setup'] = ddmin(rp['setup'], test_setup, keep_last=0)
    if len(rp.get('faults', [])) > 1:
        for i in range(len(rp['faults'])):
            cand = copy.deepcopy(rp)
            del cand['faults'][i]
            if still_fails(cand):
                rp = cand
                break
    return rp


SHRINKERS = {'seq': shrink_seq, 'conc': shrink_conc, 'fault': shrink_fault,
             'crash': shrink_fault}
