"""Start-up synchronisation under faults (C17) and histories of trait /
resource-class operations interleaved with restarts (C19)."""
import random
import re

import os_resource_classes as orc
import os_traits

from psim import dump
from psim import invariants as inv
from psim import model as M
from psim import seams
from psim import workload

STD_TRAITS = sorted(os_traits.get_traits())
STD_CLASSES = list(orc.STANDARDS)
CUSTOM_RE = re.compile(r'^CUSTOM_[A-Z0-9_]+\Z')


def make_start(world, rng, kind):
    """Build a start database: 'empty', 'synced' or 'partial' (a random
    subset of the standard names present, as after a library upgrade or an
    interrupted first boot), optionally with custom names already there."""
    if kind == 'empty':
        world.restore(world.snap_empty)
        removed = None
    else:
        world.restore(world.snap_synced)
        removed = {'traits': 0, 'classes': 0}
        if kind == 'partial':
            c = world._side()
            drop_t = rng.sample(STD_TRAITS, rng.choice(
                [1, 5, 50, len(STD_TRAITS) // 2, len(STD_TRAITS) - 1]))
            c.execute('BEGIN')
            c.executemany('DELETE FROM traits WHERE name = ?',
                          [(t,) for t in drop_t])
            drop_c = rng.sample(STD_CLASSES, rng.choice(
                [0, 1, 3, len(STD_CLASSES) - 1]))
            c.executemany('DELETE FROM resource_classes WHERE name = ?',
                          [(t,) for t in drop_c])
            c.execute('COMMIT')
            c.close()
            removed = {'traits': len(drop_t), 'classes': len(drop_c)}
    if kind != 'empty' and rng.random() < 0.5:
        c = world._side()
        c.execute('BEGIN')
        c.execute("INSERT INTO traits (name) VALUES ('CUSTOM_PRE_A')")
        # (as many custom rows as standard ones are missing, or more: the
        # table is as long as a complete one)
        for i in range(rng.choice([0, 1, 4, 60])):
            c.execute("INSERT INTO traits (name) VALUES (?)",
                      ('CUSTOM_PRE_%03d' % i,))
        for i in range(rng.choice([0, 0, 3])):
            c.execute("INSERT INTO resource_classes (id, name) VALUES "
                      "(?, ?)", (10020 + i, 'CUSTOM_PRE_RC_%d' % i))
        c.execute("INSERT INTO resource_classes (id, name) VALUES "
                  "(?, 'CUSTOM_PRE_RC')", (rng.choice([10000, 10007]),))
        c.execute('COMMIT')
        c.close()
    return removed


def names_state(nat):
    return {'classes': dict(nat['class_ids']),
            'traits': list(nat['trait_names'])}


def sync_fault(world, seed, params):
    """Every statement/commit of start-up sync x every fault kind."""
    rng = random.Random(seed)
    seams.seed_process(seed)
    kind = rng.choice(['empty', 'partial', 'partial', 'synced'])
    make_start(world, rng, kind)
    snap0 = world.snapshot()
    nat0 = dump.natural(world)
    findings = []
    out = {'findings': findings, 'requests': 0, 'faults': {}, 'probes': {},
           'signatures': ['sync:%s' % kind], 'states': [],
           'by_kind': {'startup_sync': 1}}

    def add(rule, detail, plan, sig):
        findings.append({
            'tags': ['C17', 'C19'] if 'standard' in rule else ['C17'],
            'rule': rule, 'detail': detail,
            'kind': 'startup_sync', 'sig': '%s/%s' % (rule, sig),
            'replay': {'profile': 'sync_fault', 'seed': seed,
                       'faults': [list(p) for p in plan],
                       'expect': {'rule': rule, 'kind': 'startup_sync'}}})

    # dry run
    sim = seams.Sim(world, seed=seed, trace_sql=True)
    t = sim.run_inline(world.restart)
    twin = dump.natural(world)
    for msg in inv.inv_std_present(twin):
        add('standard-names-after-sync', msg, [], 'fault-free')
    ordinals = []
    k = -1
    for (tt, verb, table) in t.ops:
        if tt in ('B', 'R'):
            continue
        k += 1
        ordinals.append((k, tt, verb, table))
    plans = []
    fixed = params.get('faults')
    if fixed is not None:
        plans = [[tuple(p) for p in fixed]]
    else:
        for (k, tt, verb, table) in ordinals:
            kinds = (['deadlock-keep', 'deadlock-rollback', 'connlost',
                      'dberror'] + (['dupkey'] if verb == 'INSERT' else [])
                     if tt == 'S' else ['commit-fail'])
            for kd in kinds:
                plans.append([(k, kd)])
        if params.get('pairs'):
            for p in list(plans):
                if p[0][1].startswith('deadlock'):
                    plans.append([p[0], (p[0][0] + rng.randint(1, 4),
                                         rng.choice(['deadlock-keep',
                                                     'deadlock-rollback']))])
    for plan in plans:
        world.restore(snap0)
        sim = seams.Sim(world, seed=seed, trace_sql=False,
                        faults={(0, k): kd for (k, kd) in plan})
        exc = None
        try:
            t = sim.run_inline(world.restart)
        except Exception as e:  # start-up failed
            exc = e
            t = sim.tasks[-1]
        fired = [kd for (_, kd) in t.fired]
        for kd in fired:
            out['faults'][kd] = out['faults'].get(kd, 0) + 1
        if not fired:
            continue
        nat = dump.natural(world)
        k0, kd0 = plan[0]
        o = ordinals[k0] if k0 < len(ordinals) else (k0, '?', '?', '?')
        desc = 'start-up sync from a %s database, fault %s at ordinal %d ' \
               '(%s %s)%s' % (kind, kd0, k0, o[2], o[3],
                              '; second fault %r' % (plan[1],)
                              if len(plan) > 1 else '')
        all_deadlocks = all(kd.startswith('deadlock') for kd in fired)
        if exc is None:
            if names_state(nat) != names_state(twin):
                add('sync-incomplete-after-fault',
                    desc + ': sync returned normally but %s' % '; '.join(
                        dump.diff(names_state(twin), names_state(nat))[:4]),
                    plan, kd0)
            for msg in inv.inv_std_present(nat):
                add('standard-names-after-sync', desc + ': ' + msg, plan,
                    kd0)
                break
        else:
            if all_deadlocks and len(fired) < 5:
                add('sync-deadlock-not-retried',
                    desc + ': raised %r' % (exc,), plan, kd0)
            # progress: the next start-up completes the job - in a new
            # process, or (every other fault point) attempted again by the
            # same process, whose module state the failure left behind
            sim2 = seams.Sim(world, seed=seed, trace_sql=False)
            same_process = (k0 % 2 == 0)
            if same_process:
                out['probes_same_process'] = \
                    out.get('probes_same_process', 0) + 1
                desc += ' [second start in the same process]'
            try:
                sim2.run_inline(world.start_again if same_process
                                else world.restart)
                nat2 = dump.natural(world)
                if names_state(nat2) != names_state(twin):
                    add('sync-not-completed-by-next-start',
                        desc + ': after a fault-free second start %s' %
                        '; '.join(dump.diff(names_state(twin),
                                            names_state(nat2))[:4]), plan,
                        kd0)
            except Exception as e2:
                add('sync-not-completed-by-next-start',
                    desc + ': second start raised %r' % (e2,), plan, kd0)
    out['probes'] = {'fault_points': len(plans), 'ordinals': len(ordinals),
                     'second_start_in_same_process':
                     out.pop('probes_same_process', 0)}
    out['sample'] = {'start': kind, 'statements_and_commits': [
        '%s %s %s' % (o[1], o[2], o[3]) for o in ordinals]}
    world._reset_sync_flags()
    return out


def sync_fault_replay(world, rp):
    res = sync_fault(world, rp['seed'], {'faults': rp['faults']})
    return res['findings']


# ---------------------------------------------------------------------------
# C19: histories of name operations and restarts
# ---------------------------------------------------------------------------
NAME_POOL_T = ['CUSTOM_TR_A', 'CUSTOM_TR_B', 'CUSTOM_TR_C', 'CUSTOM_PRE_A']
NAME_POOL_C = ['CUSTOM_RC_A', 'CUSTOM_RC_B', 'CUSTOM_RC_C', 'CUSTOM_PRE_RC']
BAD_NAMES = ['CUSTOM_lower', 'NOPREFIX', 'CUSTOM_', 'CUSTOM_A B',
             'CUSTOM_A-B', 'custom_A', 'CUSTOM_' + 'A' * 249,
             'CUSTOM_%C3%84', 'CUSTOM_A%0A', 'HW_CPU_X86_AVX', 'VCPU',
             # characters that mean something to whatever parses the name
             # on its way in: JSON escapes, quotes, backslashes
             'CUSTOM_%5Cu0041', 'CUSTOM_%5Cn', 'CUSTOM_A%5C%5C',
             'CUSTOM_A%22%2C%22name%22%3A%22CUSTOM_Z',
             'CUSTOM_' + 'A' * 244 + '%5Cu0041%5Cu0041']
LONG_OK = 'CUSTOM_' + 'Z' * 248      # exactly 255 characters


def names_history(world, seed, params):
    rng = random.Random(seed)
    seams.seed_process(seed)
    start = rng.choice(['empty', 'partial', 'partial', 'synced'])
    make_start(world, rng, start)
    findings = []
    history = []
    out = {'findings': findings, 'requests': 0, 'probes': {}, 'states': [],
           'signatures': [], 'by_kind': {}, 'by_status': {}}
    fixed = params.get('ops')
    sim = seams.Sim(world, seed=seed, trace_sql=False)
    states = set()

    def add(rule, detail, kind):
        findings.append({
            'tags': ['C19'], 'rule': rule, 'detail': detail, 'kind': kind,
            'sig': '%s/%s' % (rule, kind),
            'replay': {'profile': 'names', 'seed': seed, 'start': start,
                       'ops': list(history),
                       'expect': {'rule': rule, 'kind': kind}}})

    def probe(name):
        out['probes'][name] = out['probes'].get(name, 0) + 1

    def restart():
        world._reset_sync_flags()
        sim.run_inline(world.restart)

    # the service is started before it serves anything
    restart()
    history.append(['restart'])
    nat = dump.natural(world)
    for msg in inv.inv_std_present(nat):
        add('standard-names', 'after first start from %s: %s' % (start, msg),
            'restart')
    created_by_api = set()
    n_ops = len(fixed) if fixed is not None else rng.choice([10, 25, 40])
    i = 0
    while i < n_ops:
        if fixed is not None:
            step = fixed[i]
        else:
            step = _gen_name_step(rng, nat)
        i += 1
        if step == ['restart'] or step[0] == 'restart':
            if fixed is not None and i == 1:
                continue   # the initial restart is already done
            before = names_state(nat)
            restart()
            history.append(['restart'])
            nat2 = dump.natural(world)
            if names_state(nat2) != before:
                add('restart-not-idempotent', '; '.join(dump.diff(
                    before, names_state(nat2))[:4]), 'restart')
            for msg in inv.inv_std_present(nat2):
                add('standard-names', 'after restart: ' + msg, 'restart')
            nat = nat2
            probe('restarts')
            continue
        race = False
        if len(step) == 5:
            race = step[4] == 'id-race'
            step = step[:4]
        elif fixed is None and step[0] in ('POST', 'PUT') and \
                step[1].startswith('/resource_classes') and \
                rng.random() < 0.2:
            race = True
        m, path, ver, body = step
        if body and '%' in body.get('name', ''):
            from urllib.parse import unquote
            body = {'name': unquote(body['name'])}
        sim.match_faults = [{'verb': 'INSERT', 'table': 'resource_classes',
                             'kind': 'dupkey-id', 'nth': 1}] if race else []
        if race:
            step = list(step) + ['id-race']
        if body and '%0A' in body.get('name', ''):
            body = {'name': body['name'].replace('%0A', '\n')}
        history.append(step)
        t_ = sim.run_inline(lambda: world.request(m, path, body, ver))
        r = t_.result
        id_race_fired = any(kd == 'dupkey-id' for (_, kd) in t_.fired)
        if id_race_fired:
            probe('id_race_injected')
        sim.match_faults = []
        out['requests'] += 1
        kind = '%s %s' % (m, '/'.join(path.split('/')[:2]))
        out['by_kind'][kind] = out['by_kind'].get(kind, 0) + 1
        out['by_status'][str(r.status)] = \
            out['by_status'].get(str(r.status), 0) + 1
        nat2 = dump.natural(world)
        name = path.rsplit('/', 1)[1] if path.count('/') > 1 else (
            body or {}).get('name', '')
        name = name.replace('%0A', '\n')
        if '%' in name:
            from urllib.parse import unquote
            name = unquote(name)
        is_trait = path.startswith('/traits')
        before_names = set(nat['trait_names'] if is_trait else nat['classes'])
        after_names = set(nat2['trait_names'] if is_trait
                          else nat2['classes'])
        if r.status >= 500:
            add('server-error', '%s %s -> %d %s' % (
                m, path, r.status, (r.body or b'')[:200]), kind)
        # nothing standard is ever changed or removed
        std_t = set(STD_TRAITS)
        std_c = set(STD_CLASSES)
        if (set(nat['trait_names']) & std_t) - set(nat2['trait_names']):
            add('standard-trait-removed', '%s %s -> %d' % (m, path, r.status),
                kind)
        for n_, i_ in nat['class_ids'].items():
            if n_ in std_c and nat2['class_ids'].get(n_) != i_:
                add('standard-class-changed', '%s %s -> %d: %s' % (
                    m, path, r.status, n_), kind)
        if m == 'DELETE' and name in (std_t if is_trait else std_c) and \
                r.status != 400:
            add('standard-delete-not-400', '%s %s -> %d' % (
                m, path, r.status), kind)
        if m == 'PUT' and body is not None and name in std_c and \
                r.status not in (400,):
            add('standard-rename-not-400', '%s %s -> %d' % (
                m, path, r.status), kind)
        # names created through the API are well-formed
        for n_ in after_names - before_names:
            created_by_api.add(n_)
            if not CUSTOM_RE.match(n_) or len(n_) > 255:
                add('illegal-name-created', '%s %s %r -> %d created %r' % (
                    m, path, body, r.status, n_), kind)
        if id_race_fired:
            winner = [n_ for n_ in after_names - before_names
                      if n_.startswith('CUSTOM_RACE_WINNER_')]
            mine = [n_ for n_ in after_names - before_names
                    if not n_.startswith('CUSTOM_RACE_WINNER_')]
            existed = name in before_names
            if existed:
                pass    # 409/204 for an existing name is right either way
            elif r.status not in (201, 204) or not mine:
                add('id-race-not-retried', '%s %s lost the race for a '
                    'class id and answered %d; created %r' % (
                        m, path, r.status, sorted(mine)), kind)
            elif winner and nat2['class_ids'][mine[0]] == \
                    nat2['class_ids'][winner[0]]:
                add('id-collision', '%s and %s share id %r' % (
                    mine[0], winner[0], nat2['class_ids'][mine[0]]), kind)
            before_names = before_names | set(winner)
        # creating an existing name: 204/409 (PUT) or 409 (POST), no new row
        creating = (m == 'PUT' and body is None) or m == 'POST'
        target = name
        if creating and target in before_names and \
                CUSTOM_RE.match(target) and len(target) <= 255:
            if r.status not in (204, 409):
                add('re-create-status', '%s %s -> %d' % (m, path, r.status),
                    kind)
            if not id_race_fired and (
                    nat2['class_ids'] != nat['class_ids'] or
                    nat2['trait_names'] != nat['trait_names']):
                add('re-create-changed-rows', '%s %s -> %d' % (
                    m, path, r.status), kind)
            probe('re_create_existing')
        if creating and r.status in (201,) and not (
                after_names - before_names):
            add('created-but-absent', '%s %s -> %d' % (m, path, r.status),
                kind)
        # ids: pairwise distinct, custom >= 10000 (invariant), never reused
        # for a different live name
        for msg in inv.inv_std_present(nat2):
            add('standard-names', '%s %s -> %d: %s' % (m, path, r.status,
                                                       msg), kind)
        def _no_winner(st):
            return {'classes': {k: v for k, v in st['classes'].items()
                                if not k.startswith('CUSTOM_RACE_WINNER_')},
                    'traits': st['traits']}
        if r.status >= 400 and \
                _no_winner(names_state(nat2)) != _no_winner(names_state(nat)):
            add('rejected-but-changed', '%s %s -> %d: %s' % (
                m, path, r.status, '; '.join(dump.diff(
                    names_state(nat), names_state(nat2))[:4])), kind)
        nat = nat2
        states.add(dump.digest(names_state(nat)))
    out['states'] = sorted(states)
    out['sample'] = {'start': start, 'history': history[:14]}
    world._reset_sync_flags()
    return out


def _gen_name_step(rng, nat):
    r = rng.random()
    if r < 0.12:
        return ['restart']
    trait = rng.random() < 0.5
    if trait:
        v = rng.choice(['1.6', '1.15', '1.39'])
        name = rng.choice(NAME_POOL_T)
        q = rng.random()
        if q < 0.12:
            name = rng.choice(BAD_NAMES)
        elif q < 0.16:
            name = LONG_OK
        elif q < 0.2:
            name = LONG_OK + 'Z'
        m = rng.choice(['PUT', 'PUT', 'DELETE', 'GET'])
        return [m, '/traits/' + name, v, None]
    name = rng.choice(NAME_POOL_C)
    q = rng.random()
    if q < 0.12:
        name = rng.choice(BAD_NAMES)
    elif q < 0.16:
        name = LONG_OK
    elif q < 0.2:
        name = LONG_OK + 'Z'
    c = rng.random()
    if c < 0.3:
        return ['POST', '/resource_classes', rng.choice(['1.2', '1.39']),
                {'name': name}]
    if c < 0.55:
        return ['PUT', '/resource_classes/' + name,
                rng.choice(['1.7', '1.39']), None]
    if c < 0.7:
        new = rng.choice(NAME_POOL_C + BAD_NAMES[:4] + [LONG_OK])
        return ['PUT', '/resource_classes/' + name,
                rng.choice(['1.2', '1.6']), {'name': new}]
    if c < 0.92:
        # bias towards deleting the class with the highest id
        ids = nat['class_ids']
        cust = [n for n in ids if n not in STD_CLASSES]
        if cust and rng.random() < 0.5:
            name = max(cust, key=lambda n: ids[n])
        return ['DELETE', '/resource_classes/' + name,
                rng.choice(['1.2', '1.39']), None]
    return ['GET', '/resource_classes/' + name, '1.39', None]


def names_replay(world, rp):
    # the start database is rebuilt from the seed; the operations are explicit
    res = names_history(world, rp['seed'], {'ops': [['restart']] + [
        o for o in rp['ops'][1:]]})
    return res['findings']
