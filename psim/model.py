"""Executable reference model of the placement API (sequential).

Written from api-ref/source/*.inc and rest_api_version_history.rst, see
DESIGN.md Appendix A.  A few hundred lines of dictionaries; deliberately not
derived from the handlers.  Points the documents leave open are marked
``(cal)`` and were calibrated once against the unchanged tree.

Generations are opaque in the API contract ("changes when the resource
changes"), so the model does not predict by how much a generation moves.  For
each request it states which generations MUST move, which MAY move and (by
omission) which must not; the harness checks that against the store and then
lets the model adopt the stored values.

The model covers fully valid requests and requests with exactly one reason for
rejection (the generator guarantees that), so the order in which an
implementation tests several simultaneous defects is never part of the oracle.
"""
import copy
from urllib.parse import unquote
import re

import os_resource_classes as orc
import os_traits

STD_CLASSES = list(orc.STANDARDS)
STD_TRAITS = set(os_traits.get_traits())

INV_DEFAULTS = {'reserved': 0, 'min_unit': 1, 'max_unit': 2147483647,
                'step_size': 1, 'allocation_ratio': 1.0}
INV_FIELDS = ('total', 'reserved', 'min_unit', 'max_unit', 'step_size',
              'allocation_ratio')
CUSTOM_RE = re.compile(r'^CUSTOM_[A-Z0-9_]+\Z')

CONCURRENT = 'placement.concurrent_update'
INV_INUSE = 'placement.inventory.inuse'
RP_INUSE = 'placement.resource_provider.inuse'
RP_PARENT = 'placement.resource_provider.cannot_delete_parent'
RP_NOTFOUND = 'placement.resource_provider.not_found'
DUP_NAME = 'placement.duplicate_name'


LATEST = (1, 39)


def ver(s):
    if s is None:
        return (1, 0)
    if s == 'latest':
        return LATEST
    a, b = s.split('.')
    return (int(a), int(b))


def json_acceptable(accept):
    """Does this Accept header admit application/json (q > 0)?"""
    for part in accept.split(','):
        bits = [b.strip() for b in part.split(';')]
        q = 1.0
        for b in bits[1:]:
            if b.startswith('q='):
                q = float(b[2:])
        if bits[0] in ('application/json', '*/*', 'application/*') and q > 0:
            return True
    return False


def canon_uuid(u):
    """The canonical (dashed, lower-case) spelling of a uuid."""
    import uuid
    try:
        return str(uuid.UUID(u))
    except (ValueError, AttributeError, TypeError):
        return u


def capacity(inv):
    return int((inv['total'] - inv['reserved']) * inv['allocation_ratio'])


class Expect(object):
    """What the model expects of one request."""

    def __init__(self, status, code=None, body=None, body_partial=False,
                 must_bump=(), may_bump=(), cons_must=(), cons_may=(),
                 location=None, alt_codes=(), note=None):
        self.status = status
        self.code = code            # compared from 1.23 when not None
        self.alt_codes = alt_codes
        self.body = body            # None: not compared
        self.body_partial = body_partial
        self.must_bump = set(must_bump)   # provider uuids
        self.may_bump = set(may_bump)
        self.cons_must = set(cons_must)   # consumer uuids (if still there)
        self.cons_may = set(cons_may)
        self.location = location
        self.note = note


class Model(object):

    def __init__(self, incomplete_project='00000000-0000-0000-0000-000000000000',
                 incomplete_user='00000000-0000-0000-0000-000000000000'):
        self.providers = {}     # uuid -> {name, generation, parent}
        self.inventories = {}   # (rp, rc) -> dict of six fields
        self.traits = {}        # rp -> set(names)
        self.aggregates = {}    # rp -> set(uuids)
        self.custom_classes = set()
        self.custom_traits = set()
        self.allocations = {}   # consumer -> {rp: {rc: used}}
        self.consumers = {}     # uuid -> {generation, project, user, type}
        self.incomplete_project = incomplete_project
        self.incomplete_user = incomplete_user

    def clone(self):
        return copy.deepcopy(self)

    # -- derived -----------------------------------------------------------
    def root_of(self, u):
        seen = set()
        while self.providers[u]['parent'] is not None:
            if u in seen:
                raise AssertionError('model forest broken')
            seen.add(u)
            u = self.providers[u]['parent']
        return u

    def children(self, u):
        return [c for c, p in self.providers.items() if p['parent'] == u]

    def subtree(self, u):
        out = [u]
        for c in self.children(u):
            out.extend(self.subtree(c))
        return out

    def tree(self, u):
        r = self.root_of(u)
        return self.subtree(r)

    def class_exists(self, name):
        return name in STD_CLASSES or name in self.custom_classes

    def trait_exists(self, name):
        return name in STD_TRAITS or name in self.custom_traits

    def used(self, rp, rc):
        return sum(a.get(rp, {}).get(rc, 0)
                   for a in self.allocations.values())

    def provider_has_allocs(self, rp):
        return any(rp in a for a in self.allocations.values())

    def usages_of(self, rp):
        return {rc: self.used(rp, rc)
                for (p, rc) in self.inventories if p == rp}

    # -- generation adoption -------------------------------------------------
    def adopt(self, nat):
        """Take over stored generations (after the harness checked them)."""
        for u, p in self.providers.items():
            if u in nat['providers']:
                p['generation'] = nat['providers'][u]['generation']
        for u, c in self.consumers.items():
            if u in nat['consumers']:
                c['generation'] = nat['consumers'][u]['generation']

    # -- comparison with the store -------------------------------------------
    def as_natural(self):
        prov = {}
        for u, p in self.providers.items():
            prov[u] = {'name': p['name'], 'generation': p['generation'],
                       'parent': p['parent'], 'root': self.root_of(u)}
        inv = {k: tuple(v[f] for f in INV_FIELDS)
               for k, v in self.inventories.items()}
        allocs = sorted((c, rp, rc, used)
                        for c, a in self.allocations.items()
                        for rp, res in a.items()
                        for rc, used in res.items())
        return {
            'providers': prov,
            'inventories': inv,
            'allocations': allocs,
            'traits': sorted((rp, t) for rp, ts in self.traits.items()
                             for t in ts),
            'aggregates': sorted((rp, a) for rp, ags in
                                 self.aggregates.items() for a in ags),
            'consumers': {u: dict(c) for u, c in self.consumers.items()},
            'classes': sorted(STD_CLASSES + list(self.custom_classes)),
            'trait_names': sorted(STD_TRAITS | self.custom_traits),
        }

    # ======================================================================
    # dispatch
    # ======================================================================
    def apply(self, op):
        h = op.get('h') or {}
        if 'x-auth-token' in h:
            # the caller: no token, or a token without the admin or service
            # role - refused by every route before it does anything
            if h['x-auth-token'] is None:
                return Expect(401)
            if h.get('x-roles', '') is None:
                return Expect(403)
        ct = (op.get('h') or {}).get('content-type')
        if ct and op.get('b') is not None and \
                ct.split(';')[0].strip() != 'application/json':
            # every route that reads a body insists on its declared type
            return Expect(415)
        exp = self._apply(op)
        acc = (op.get('h') or {}).get('accept')
        if acc and op['m'] == 'GET' and exp.status == 200 and \
                not json_acceptable(acc):
            # every read route that answers with a document checks Accept
            # before anything else it does
            return Expect(406)
        return exp

    def _apply(self, op):
        if op.get('defect') == 'nan':
            # allocation_ratio NaN: no inventory can have it; a client error
            return Expect(400)
        if op.get('defect') == 'unencodable':
            # a lone surrogate in a stored string: cannot be stored, so it
            # is a client error and nothing changes
            return Expect(400)
        if op.get('defect') == 'schema':
            # the document violates the published JSON schema of the route:
            # 400, nothing changes (the generator breaks otherwise valid
            # requests only, so this is the single reason for rejection)
            return Expect(400)
        m = op['m']
        path = op['p']
        v = ver(op.get('v') or '1.0')
        q = {}
        if '?' in path:
            path, qs = path.split('?', 1)
            for part in qs.split('&'):
                if part:
                    k, _, val = part.partition('=')
                    q[k] = unquote(val) if k == 'name' else val
        seg = [s for s in path.split('/') if s]
        b = op.get('b')
        if seg[0] == 'resource_providers':
            if len(seg) == 1:
                if m == 'POST':
                    return self.rp_create(v, b)
                if m == 'GET':
                    return self.rp_list(v, q)
            u = seg[1]
            if len(seg) == 2:
                return {'GET': self.rp_get, 'PUT': self.rp_update,
                        'DELETE': self.rp_delete}[m](v, u, b)
            sub = seg[2]
            if sub == 'inventories':
                if len(seg) == 3:
                    return {'GET': self.inv_list, 'PUT': self.inv_put_all,
                            'POST': self.inv_post,
                            'DELETE': self.inv_delete_all}[m](v, u, b)
                return {'GET': self.inv_get, 'PUT': self.inv_put_one,
                        'DELETE': self.inv_delete_one}[m](v, u, seg[3], b)
            if sub == 'aggregates':
                return {'GET': self.agg_get, 'PUT': self.agg_put}[m](v, u, b)
            if sub == 'traits':
                return {'GET': self.rpt_get, 'PUT': self.rpt_put,
                        'DELETE': self.rpt_delete}[m](v, u, b)
            if sub == 'usages':
                return self.rp_usages(v, u)
            if sub == 'allocations':
                return self.rp_allocations(v, u)
        if seg[0] == 'traits':
            if len(seg) == 1:
                return self.trait_list(v, q)
            return {'GET': self.trait_get, 'PUT': self.trait_put,
                    'DELETE': self.trait_delete}[m](v, seg[1])
        if seg[0] == 'resource_classes':
            if len(seg) == 1:
                if m == 'GET':
                    return self.rc_list(v)
                return self.rc_post(v, b)
            return {'GET': self.rc_get, 'PUT': self.rc_put,
                    'DELETE': self.rc_delete}[m](v, seg[1], b)
        if seg[0] == 'allocations':
            if len(seg) == 1:
                return self.alloc_post(v, b)
            return {'GET': self.alloc_get, 'PUT': self.alloc_put,
                    'DELETE': self.alloc_delete}[m](v, seg[1], b)
        if seg[0] == 'usages':
            return self.total_usages(v, q)
        if seg[0] == 'reshaper':
            return self.reshape(v, b)
        raise KeyError('model does not cover %s %s' % (m, op['p']))

    # ======================================================================
    # providers
    # ======================================================================
    def _rp_body(self, v, u):
        p = self.providers[u]
        rels = ['self', 'inventories', 'usages']
        if v >= (1, 1):
            rels.append('aggregates')
        if v >= (1, 6):
            rels.append('traits')
        if v >= (1, 11):
            rels.append('allocations')
        base = '/resource_providers/%s' % u
        links = [{'rel': r, 'href': base if r == 'self' else
                  '%s/%s' % (base, r)} for r in rels]
        out = {'uuid': u, 'name': p['name'], 'generation': p['generation'],
               'links': links}
        if v >= (1, 14):
            out['parent_provider_uuid'] = p['parent']
            out['root_provider_uuid'] = self.root_of(u)
        return out

    def rp_create(self, v, b):
        u = b.get('uuid')
        if u is not None:
            u = canon_uuid(u)
        name = b['name']
        parent = b.get('parent_provider_uuid')
        if u is not None and u in self.providers:
            return Expect(409, DUP_NAME)
        if any(p['name'] == name for p in self.providers.values()):
            return Expect(409, DUP_NAME)
        if parent is not None:
            if parent == u or parent not in self.providers:
                return Expect(400)
        if u is None:
            # server-generated uuid: the harness fills it in from Location
            return Expect(200 if v >= (1, 20) else 201, note='gen-uuid')
        self.providers[u] = {'name': name, 'generation': 0, 'parent': parent}
        self.traits[u] = set()
        self.aggregates[u] = set()
        loc = '/resource_providers/%s' % u
        if v >= (1, 20):
            return Expect(200, body=self._rp_body(v, u), location=loc)
        return Expect(201, location=loc)

    def rp_get(self, v, u, b=None):
        if u not in self.providers:
            return Expect(404)
        return Expect(200, body=self._rp_body(v, u))

    def rp_list(self, v, q):
        sel = list(self.providers)
        if 'name' in q:
            sel = [u for u in sel if self.providers[u]['name'] == q['name']]
        if 'uuid' in q:
            sel = [u for u in sel if u == q['uuid']]
        if 'in_tree' in q:
            if q['in_tree'] not in self.providers:
                sel = []
            else:
                t = set(self.tree(q['in_tree']))
                sel = [u for u in sel if u in t]
        if 'required' in q:
            # plain form only: every listed trait (1.18+)
            want = q['required'].split(',')
            if v < (1, 18) or any(
                    t.startswith(('!', 'in:')) for t in want):
                raise KeyError('model does not cover required=%s at %s'
                               % (q['required'], v))
            if not all(self.trait_exists(t) for t in want):
                return Expect(400)
            sel = [u for u in sel if set(want) <= self.traits[u]]
        if 'member_of' in q:
            # plain forms only: one aggregate, or in:a,b (any of them)
            val = q['member_of']
            if v < (1, 3) or val.startswith('!'):
                raise KeyError('model does not cover member_of=%s' % val)
            any_of = set((val[3:] if val.startswith('in:') else
                          val).split(','))
            sel = [u for u in sel if any_of & self.aggregates[u]]
        unknown = set(q) - {'name', 'uuid', 'in_tree', 'required',
                            'member_of'}
        if unknown:
            raise KeyError('model does not cover query %s' % sorted(unknown))
        return Expect(200, body={'resource_providers':
                                 [self._rp_body(v, u) for u in sel]})

    def rp_update(self, v, u, b):
        if u not in self.providers:
            return Expect(404)
        p = self.providers[u]
        name = b['name']
        if any(o['name'] == name for ou, o in self.providers.items()
               if ou != u):
            return Expect(409, DUP_NAME)
        if 'parent_provider_uuid' in b:
            np_ = b['parent_provider_uuid']
            if np_ is not None:
                # a uuid is case-insensitive; the generator uses another
                # spelling only for loop attempts, which are refused (400)
                # whether or not the store finds the provider under it
                np_ = np_.lower()
                if np_ not in self.providers:
                    return Expect(400)
                if np_ in self.subtree(u):
                    return Expect(400)
                if (v < (1, 37) and p['parent'] is not None and
                        p['parent'] != np_):
                    return Expect(400)
            else:
                if v < (1, 37) and p['parent'] is not None:
                    return Expect(400)
            p['parent'] = np_
        p['name'] = name
        return Expect(200, body=self._rp_body(v, u))

    def rp_delete(self, v, u, b=None):
        if u not in self.providers:
            return Expect(404)
        kids = bool(self.children(u))
        used = self.provider_has_allocs(u)
        if kids and used:
            return Expect(409, RP_PARENT, alt_codes=(RP_INUSE,))
        if kids:
            return Expect(409, RP_PARENT)
        if used:
            return Expect(409, RP_INUSE)
        del self.providers[u]
        self.traits.pop(u, None)
        self.aggregates.pop(u, None)
        for k in [k for k in self.inventories if k[0] == u]:
            del self.inventories[k]
        return Expect(204)

    # ======================================================================
    # inventories
    # ======================================================================
    def _inv_full(self, d):
        out = dict(INV_DEFAULTS)
        out.update({k: d[k] for k in d if k in INV_FIELDS})
        return out

    def _cap_bad(self, v, inv):
        cap = capacity(inv)
        if v >= (1, 26):
            return cap < 0
        return cap <= 0

    def inv_list(self, v, u, b=None):
        if u not in self.providers:
            return Expect(404)
        invs = {rc: dict(i) for (p, rc), i in self.inventories.items()
                if p == u}
        return Expect(200, body={
            'resource_provider_generation': self.providers[u]['generation'],
            'inventories': invs})

    def inv_get(self, v, u, rc, b=None):
        if u not in self.providers or (u, rc) not in self.inventories:
            return Expect(404)
        body = dict(self.inventories[(u, rc)])
        body['resource_provider_generation'] = \
            self.providers[u]['generation']
        return Expect(200, body=body)

    def inv_put_all(self, v, u, b):
        if u not in self.providers:
            return Expect(404)
        if b['resource_provider_generation'] != \
                self.providers[u]['generation']:
            return Expect(409, CONCURRENT)
        new = {rc: self._inv_full(d) for rc, d in b['inventories'].items()}
        for rc, inv in new.items():
            if not self.class_exists(rc):
                return Expect(400)
        for rc, inv in new.items():
            if self._cap_bad(v, inv):
                return Expect(400)
        for (p, rc) in list(self.inventories):
            if p == u and rc not in new and self.used(u, rc) > 0:
                return Expect(409, INV_INUSE)
        for k in [k for k in self.inventories if k[0] == u]:
            del self.inventories[k]
        for rc, inv in new.items():
            self.inventories[(u, rc)] = inv
        return Expect(200, body={'inventories': copy.deepcopy(new)},
                      body_partial=True, must_bump=[u])

    def inv_post(self, v, u, b):
        if u not in self.providers:
            return Expect(404)
        rc = b['resource_class']
        if (u, rc) in self.inventories:
            return Expect(409)
        if not self.class_exists(rc):
            return Expect(400)
        inv = self._inv_full(b)
        if self._cap_bad(v, inv):
            return Expect(400)
        self.inventories[(u, rc)] = inv
        return Expect(201, body=dict(inv), body_partial=True, must_bump=[u],
                      location='/resource_providers/%s/inventories/%s' %
                      (u, rc))

    def inv_put_one(self, v, u, rc, b):
        if u not in self.providers:
            return Expect(404)
        if b['resource_provider_generation'] != \
                self.providers[u]['generation']:
            return Expect(409, CONCURRENT)
        if not self.class_exists(rc):
            return Expect(404, note='cal: unknown class in path')
        if (u, rc) not in self.inventories:
            return Expect(400)
        inv = self._inv_full(b)
        if self._cap_bad(v, inv):
            return Expect(400)
        self.inventories[(u, rc)] = inv
        return Expect(200, body=dict(inv), body_partial=True, must_bump=[u])

    def inv_delete_one(self, v, u, rc, b=None):
        if u not in self.providers or (u, rc) not in self.inventories:
            return Expect(404)
        if self.used(u, rc) > 0:
            return Expect(409)
        del self.inventories[(u, rc)]
        return Expect(204, must_bump=[u])

    def inv_delete_all(self, v, u, b=None):
        if v < (1, 5):
            return Expect(405)
        if u not in self.providers:
            return Expect(404)
        for (p, rc) in self.inventories:
            if p == u and self.used(u, rc) > 0:
                return Expect(409, INV_INUSE)
        for k in [k for k in self.inventories if k[0] == u]:
            del self.inventories[k]
        return Expect(204, must_bump=[u])

    # ======================================================================
    # aggregates
    # ======================================================================
    def agg_get(self, v, u, b=None):
        if v < (1, 1) or u not in self.providers:
            return Expect(404)
        body = {'aggregates': sorted(self.aggregates[u])}
        if v >= (1, 19):
            body['resource_provider_generation'] = \
                self.providers[u]['generation']
        return Expect(200, body=body)

    def agg_put(self, v, u, b):
        if v < (1, 1) or u not in self.providers:
            return Expect(404)
        if v >= (1, 19):
            if b['resource_provider_generation'] != \
                    self.providers[u]['generation']:
                return Expect(409, CONCURRENT)
            aggs = b['aggregates']
        else:
            aggs = b
        self.aggregates[u] = set(aggs)
        body = {'aggregates': sorted(set(aggs))}
        if v >= (1, 19):
            return Expect(200, body=body, body_partial=True, must_bump=[u])
        return Expect(200, body=body, body_partial=True)

    # ======================================================================
    # traits
    # ======================================================================
    def trait_put(self, v, name, b=None):
        if v < (1, 6):
            return Expect(404)
        if not CUSTOM_RE.match(name) or len(name) > 255:
            return Expect(400)
        if name in self.custom_traits:
            return Expect(204)
        self.custom_traits.add(name)
        return Expect(201)

    def trait_get(self, v, name, b=None):
        if v < (1, 6):
            return Expect(404)
        return Expect(204 if self.trait_exists(name) else 404)

    def trait_delete(self, v, name, b=None):
        if v < (1, 6):
            return Expect(404)
        if not self.trait_exists(name):
            return Expect(404)
        if name in STD_TRAITS or not name.startswith('CUSTOM_'):
            return Expect(400)
        if any(name in ts for ts in self.traits.values()):
            return Expect(409)
        self.custom_traits.discard(name)
        return Expect(204)

    def trait_list(self, v, q):
        if v < (1, 6):
            return Expect(404)
        names = STD_TRAITS | self.custom_traits
        if 'name' in q:
            val = q['name']
            if ':' not in val:
                return Expect(400)
            op, _, arg = val.partition(':')
            if op == 'in':
                want = set(arg.split(','))
                names = {n for n in names if n in want}
            elif op == 'startswith':
                names = {n for n in names if n.startswith(arg)}
        if 'associated' in q:
            a = q['associated'].lower()
            if a not in ('true', 'false'):
                return Expect(400)
            assoc = set()
            for ts in self.traits.values():
                assoc |= ts
            names = {n for n in names if (n in assoc) == (a == 'true')}
        return Expect(200, body={'traits': sorted(names)})

    def rpt_get(self, v, u, b=None):
        if v < (1, 6) or u not in self.providers:
            return Expect(404)
        return Expect(200, body={
            'traits': sorted(self.traits[u]),
            'resource_provider_generation': self.providers[u]['generation']})

    def rpt_put(self, v, u, b):
        if v < (1, 6) or u not in self.providers:
            return Expect(404)
        if b['resource_provider_generation'] != \
                self.providers[u]['generation']:
            return Expect(409, CONCURRENT)
        for t in b['traits']:
            if not self.trait_exists(t):
                return Expect(400)
        new = set(b['traits'])
        changed = new != self.traits[u]
        self.traits[u] = new
        body = {'traits': sorted(new)}
        if changed:
            return Expect(200, body=body, body_partial=True, must_bump=[u])
        return Expect(200, body=body, body_partial=True, may_bump=[u])

    def rpt_delete(self, v, u, b=None):
        if v < (1, 6) or u not in self.providers:
            return Expect(404)
        had = bool(self.traits[u])
        self.traits[u] = set()
        if had:
            return Expect(204, must_bump=[u])
        return Expect(204, may_bump=[u])

    # ======================================================================
    # resource classes
    # ======================================================================
    def _rc_body(self, name):
        return {'name': name, 'links': [
            {'rel': 'self', 'href': '/resource_classes/%s' % name}]}

    def rc_list(self, v):
        if v < (1, 2):
            return Expect(404)
        names = STD_CLASSES + sorted(self.custom_classes)
        return Expect(200, body={'resource_classes':
                                 [self._rc_body(n) for n in names]})

    def rc_get(self, v, name, b=None):
        if v < (1, 2):
            return Expect(404)
        if not self.class_exists(name):
            return Expect(404)
        return Expect(200, body=self._rc_body(name))

    def rc_post(self, v, b):
        if v < (1, 2):
            return Expect(404)
        name = b['name']
        if not CUSTOM_RE.match(name) or len(name) > 255:
            return Expect(400)
        if name in self.custom_classes:
            return Expect(409)
        self.custom_classes.add(name)
        return Expect(201, location='/resource_classes/%s' % name)

    def rc_put(self, v, name, b):
        if v < (1, 2):
            return Expect(404)
        if v >= (1, 7):
            if not CUSTOM_RE.match(name) or len(name) > 255:
                return Expect(400)
            if name in self.custom_classes:
                return Expect(204)
            self.custom_classes.add(name)
            return Expect(201, location='/resource_classes/%s' % name)
        # 1.2 - 1.6: rename
        new = b['name']
        if not self.class_exists(name):
            return Expect(404)
        if not CUSTOM_RE.match(new) or len(new) > 255:
            return Expect(400)
        if name in STD_CLASSES:
            return Expect(400)
        if new != name and self.class_exists(new):
            return Expect(409)
        self.custom_classes.discard(name)
        self.custom_classes.add(new)
        for (p, rc) in [k for k in self.inventories if k[1] == name]:
            self.inventories[(p, new)] = self.inventories.pop((p, rc))
        for a in self.allocations.values():
            for rp, res in a.items():
                if name in res:
                    res[new] = res.pop(name)
        return Expect(200, body=self._rc_body(new))

    def rc_delete(self, v, name, b=None):
        if v < (1, 2):
            return Expect(404)
        if not self.class_exists(name):
            return Expect(404)
        if name in STD_CLASSES:
            return Expect(400)
        if any(rc == name for (_, rc) in self.inventories):
            return Expect(409)
        self.custom_classes.discard(name)
        return Expect(204)

    # ======================================================================
    # allocations
    # ======================================================================
    def _normalise_alloc_body(self, v, b):
        """-> {rp: {rc: amount}} from either body format."""
        a = b['allocations']
        if isinstance(a, list):
            out = {}
            for item in a:
                out[item['resource_provider']['uuid']] = dict(
                    item['resources'])
            return out
        return {rp: dict(d['resources']) for rp, d in a.items()}

    def _check_entries(self, v, entries, base_allocs=None, inventories=None):
        """entries: {consumer: {attrs..., 'alloc': {rp: {rc: n}}}}.

        Returns an Expect for the first (only) defect, or None."""
        inventories = self.inventories if inventories is None else inventories
        # consumer generation (from 1.28)
        if v >= (1, 28):
            for c, e in entries.items():
                cur = self.consumers.get(c)
                have = None if cur is None else cur['generation']
                if e['cg'] != have:
                    return Expect(409, CONCURRENT)
        for c, e in entries.items():
            for rp, res in e['alloc'].items():
                if rp not in self.providers:
                    return Expect(400)
        for c, e in entries.items():
            for rp, res in e['alloc'].items():
                for rc in res:
                    if not self.class_exists(rc):
                        return Expect(400)
        # capacity etc. evaluated against the state with these consumers'
        # old allocations removed
        others = {}
        for c, a in self.allocations.items():
            if c in entries:
                continue
            for rp, res in a.items():
                for rc, n in res.items():
                    others[(rp, rc)] = others.get((rp, rc), 0) + n
        want = {}
        for c, e in entries.items():
            for rp, res in e['alloc'].items():
                for rc, n in res.items():
                    inv = inventories.get((rp, rc))
                    if inv is None:
                        return Expect(409)
                    if (n < inv['min_unit'] or n > inv['max_unit'] or
                            n % inv['step_size'] != 0):
                        return Expect(409)
                    want[(rp, rc)] = want.get((rp, rc), 0) + n
        for (rp, rc), n in want.items():
            inv = inventories[(rp, rc)]
            cap = (inv['total'] - inv['reserved']) * inv['allocation_ratio']
            if others.get((rp, rc), 0) + n > cap:
                return Expect(409)
        return None

    def _entries_from(self, v, data):
        entries = {}
        for c, b in data.items():
            entries[c] = {
                'alloc': self._normalise_alloc_body(v, b),
                'project': b.get('project_id'),
                'user': b.get('user_id'),
                'cg': b.get('consumer_generation'),
                'type': b.get('consumer_type'),
            }
        return entries

    def _apply_entries(self, v, entries):
        """Apply validated entries; returns (must, may, cons_must)."""
        must = set()
        may = set()
        cons_must = set()
        for c, e in entries.items():
            old = self.allocations.get(c, {})
            if e['alloc']:
                must |= set(e['alloc'])
                may |= set(old) - set(e['alloc'])
            else:
                # clearing: providers that lose the allocations may move
                may |= set(old)
            cur = self.consumers.get(c)
            if e['project'] is None:
                project, user = self.incomplete_project, self.incomplete_user
            else:
                project, user = e['project'], e['user']
            if cur is None:
                cur = {'generation': 0, 'project': project, 'user': user,
                       'type': e['type'] if v >= (1, 38) else None}
                if e['alloc']:
                    self.consumers[c] = cur
            else:
                cur['project'] = project
                cur['user'] = user
                if v >= (1, 38):
                    cur['type'] = e['type']
            if e['alloc']:
                self.allocations[c] = copy.deepcopy(e['alloc'])
                cons_must.add(c)
            else:
                self.allocations.pop(c, None)
                self.consumers.pop(c, None)
        return must, may - must, cons_must

    def alloc_put(self, v, c, b):
        c = canon_uuid(c)
        entries = self._entries_from(v, {c: b})
        bad = self._check_entries(v, entries)
        if bad is not None:
            return bad
        must, may, cons_must = self._apply_entries(v, entries)
        return Expect(204, must_bump=must, may_bump=may, cons_must=cons_must)

    def alloc_post(self, v, b):
        if v < (1, 13):
            return Expect(405)
        entries = self._entries_from(v, b)
        bad = self._check_entries(v, entries)
        if bad is not None:
            return bad
        must, may, cons_must = self._apply_entries(v, entries)
        return Expect(204, must_bump=must, may_bump=may, cons_must=cons_must)

    def alloc_delete(self, v, c, b=None):
        if c not in self.allocations:
            return Expect(404)
        may = set(self.allocations[c])
        del self.allocations[c]
        self.consumers.pop(c, None)
        return Expect(204, may_bump=may)

    def alloc_get(self, v, c, b=None):
        a = self.allocations.get(c, {})
        out = {}
        for rp, res in a.items():
            out[rp] = {'generation': self.providers[rp]['generation'],
                       'resources': dict(res)}
        body = {'allocations': out}
        if a:
            cons = self.consumers[c]
            if v >= (1, 12):
                body['project_id'] = cons['project']
                body['user_id'] = cons['user']
            if v >= (1, 28):
                body['consumer_generation'] = cons['generation']
            if v >= (1, 38):
                body['consumer_type'] = cons['type'] or 'unknown'
        return Expect(200, body=body)

    def rp_allocations(self, v, u):
        if u not in self.providers:
            return Expect(404)
        out = {}
        for c, a in self.allocations.items():
            if u in a:
                out[c] = {'resources': dict(a[u])}
                if v >= (1, 28):
                    out[c]['consumer_generation'] = \
                        self.consumers[c]['generation']
        return Expect(200, body={
            'allocations': out,
            'resource_provider_generation': self.providers[u]['generation']})

    # ======================================================================
    # usages
    # ======================================================================
    def rp_usages(self, v, u):
        if u not in self.providers:
            return Expect(404)
        return Expect(200, body={
            'resource_provider_generation': self.providers[u]['generation'],
            'usages': self.usages_of(u)})

    def total_usages(self, v, q):
        if v < (1, 9):
            return Expect(404)
        if 'project_id' not in q:
            return Expect(400)
        sel = [c for c, cons in self.consumers.items()
               if cons['project'] == q['project_id'] and
               ('user_id' not in q or cons['user'] == q['user_id'])]

        def total(cs):
            out = {}
            for c in cs:
                for rp, res in self.allocations.get(c, {}).items():
                    for rc, n in res.items():
                        out[rc] = out.get(rc, 0) + n
            return out
        if v < (1, 38):
            return Expect(200, body={'usages': total(sel)})
        ct = q.get('consumer_type')
        groups = {}
        if ct == 'all':
            if sel:
                groups['all'] = sel
        elif ct == 'unknown':
            s = [c for c in sel if self.consumers[c]['type'] is None]
            if s:
                groups['unknown'] = s
        else:
            for c in sel:
                t = self.consumers[c]['type'] or 'unknown'
                if ct is not None and t != ct:
                    continue
                if ct is not None and self.consumers[c]['type'] is None:
                    continue
                groups.setdefault(t, []).append(c)
        out = {}
        for t, cs in groups.items():
            d = total(cs)
            if not d:
                continue
            d['consumer_count'] = len(cs)
            out[t] = d
        return Expect(200, body={'usages': out})

    # ======================================================================
    # reshaper
    # ======================================================================
    def reshape(self, v, b):
        if v < (1, 30):
            return Expect(404)
        invs = b['inventories']
        allocs = b['allocations']
        for rp in invs:
            if rp not in self.providers:
                return Expect(400, RP_NOTFOUND)
        for rp, d in invs.items():
            if d['resource_provider_generation'] != \
                    self.providers[rp]['generation']:
                return Expect(409, CONCURRENT)
        for rp, d in invs.items():
            for rc in d['inventories']:
                if not self.class_exists(rc):
                    return Expect(400)
        # the inventories as they will be
        new_inv = dict(self.inventories)
        for rp, d in invs.items():
            for k in [k for k in new_inv if k[0] == rp]:
                del new_inv[k]
            for rc, raw in d['inventories'].items():
                new_inv[(rp, rc)] = self._inv_full(raw)
        entries = self._entries_from(v, allocs)
        bad = self._check_entries(v, entries, inventories=new_inv)
        if bad is not None:
            # an allocation left on an inventory the request removes
            return bad
        # allocations of consumers NOT named that sit on removed inventory
        for c, a in self.allocations.items():
            if c in entries:
                continue
            for rp, res in a.items():
                for rc in res:
                    if rp in invs and (rp, rc) not in new_inv:
                        return Expect(409, INV_INUSE)
        self.inventories = new_inv
        must, may, cons_must = self._apply_entries(v, entries)
        must |= set(invs)
        return Expect(204, must_bump=must, may_bump=may - must,
                      cons_must=cons_must)
