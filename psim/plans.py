"""Per-property plans (which profiles, how many runs) and evidence assembly."""
import copy

from psim import profiles

REAL_STUB = {
    'real': [
        'placement WSGI pipeline from /repo working tree: HTTPProxyToWSGI, '
        'RequestLog, NoAuthMiddleware, PlacementKeystoneContext, '
        'FaultWrapper, MicroversionMiddleware, PlacementHandler, all '
        'handlers, schemas, objects, policy enforcer',
        'SQLAlchemy 2.0, oslo.db enginefacade / exception filters / '
        'wrap_db_retry',
        'SQL execution (SQLite engine)',
    ],
    'stub': [
        'database server: SQLite file on tmpfs instead of MySQL/PostgreSQL; '
        'MySQL failure personalities emulated at the DBAPI seam',
        'HTTP transport: WSGI callable invoked directly',
        'keystone: the repo\'s own noauth2 middleware',
        'wall clock, time.sleep in wrap_db_retry, random, uuid4: simulated',
        'process death / restart: simulated (thread frozen, connections '
        'rolled back and closed; sync flags reset, update_database re-run)',
    ],
}

COMMON_ASSUMPTIONS = [
    'SQLite stands in for the production DBMS: MySQL/PostgreSQL typing, '
    'collation, single-precision FLOAT and isolation anomalies are not '
    'reproduced',
    'sampling, not proof: a clean batch is evidence over the seeds explored',
    'foreign keys are enforced (PRAGMA foreign_keys=ON) as MySQL/PostgreSQL '
    'would',
]

SEQ_RULE = ('seeded state-aware generator (psim/workload.py) produces a '
            'history of API requests, each fully valid or carrying exactly '
            'one reason for rejection; the real service executes it with the '
            'reference model in lock-step. distinct_nontrivial counts '
            'DISTINCT stored states (digest of the natural dump without '
            'generations) reached after at least one accepted write.')

SEQ_N = {'quick': 900, 'thorough': 9000}

PLANS = {}


SCALE_N = {'quick': 4, 'thorough': 60}     # per scenario
SCALE_ALL = ['deep-consumer-generation', 'deep-generation',
             'many-aggregates', 'many-classes', 'many-consumers',
             'many-providers-one-consumer', 'many-traits', 'wide-tree']
# the same past 1000 rows (bound-parameter limits, slices of 999/1000):
# expensive (30-60 s each), so one run per scenario in the quick tier
HUGE = ['wide-tree', 'many-consumers', 'many-aggregates']
HUGE_N = {'quick': 1, 'thorough': 5}
SCALE_RULE = (' Plus "scale" histories through the same oracle: one request '
              'touching 101-300 rows of one kind (consumers in one POST '
              '/allocations, traits / aggregates / classes of one provider, '
              'providers of one consumer), one provider or consumer '
              'collecting 101-300 successful writes (generations past 256), '
              'one tree of 101-300 providers re-parented; a quarter of them '
              'served by two worker processes. The scenarios with '
              'consumers, aggregates and trees are also run at 1001 rows '
              '(quick: once each).')
SCALE_FOR = {
    'C01': ['many-consumers', 'many-providers-one-consumer', 'many-classes',
            'deep-consumer-generation'],
    'C04': ['many-consumers', 'many-providers-one-consumer', 'many-classes'],
    'C08': ['many-classes', 'many-traits', 'many-aggregates', 'wide-tree',
            'many-consumers'],
    'C09': ['wide-tree'],
    'C10': ['deep-generation', 'deep-consumer-generation', 'many-consumers',
            'many-traits'],
    'C11': None,
    'C12': ['many-consumers', 'deep-consumer-generation',
            'many-providers-one-consumer'],
}


def _seq_plan(prop, text, extra_assumptions=()):
    def plan(tier):
        return {
            'runs': [('scale', {'scenarios': [nm], 'sizes': [1001]},
                      HUGE_N[tier])
                     for nm in (SCALE_FOR[prop] or SCALE_ALL)
                     if nm in HUGE] + [
                     ('seq', {'variant': prop} if tier == 'quick' else
                      {'variant': prop, 'n_ops': [25, 60, 120]},
                      SEQ_N[tier]),
                     ] + [('scale', {'scenarios': [nm]}, SCALE_N[tier])
                          for nm in (SCALE_FOR[prop] or SCALE_ALL)],
            'level': 'exploration',
            'rule': SEQ_RULE + ' ' + text + SCALE_RULE,
            'assumptions': COMMON_ASSUMPTIONS + list(extra_assumptions),
        }
    return plan


PLANS['C01'] = _seq_plan('C01', 'Oracle: capacity/unit invariant for every '
                         'pair an accepted allocation write placed amounts '
                         'on, plus over-commit ledger over the history.')
PLANS['C04'] = _seq_plan('C04', 'Oracle: raw dump before == after for every '
                         'response >= 400 (auxiliary rows may be added); '
                         'stored state == model state after every accepted '
                         'multi-entity write.')
PLANS['C08'] = _seq_plan('C08', 'Oracle: referential invariant after every '
                         'request; model verdict on every DELETE.')
PLANS['C09'] = _seq_plan('C09', 'Oracle: forest invariant after every '
                         'request; model verdict and API view for every '
                         'provider create/update/delete.')
PLANS['C10'] = _seq_plan('C10', 'Oracle: provider and consumer generation '
                         'maps before/after every request.')
PLANS['C11'] = _seq_plan('C11', 'Oracle: refinement against the reference '
                         'model operation by operation (status, code, body, '
                         'stored state), cross-view read bursts.')
PLANS['C12'] = _seq_plan('C12', 'Oracle: consumer <=> allocations invariant, '
                         'consumer attributes == model, null-generation '
                         'follow-up writes.')


CONC_RULE = ('a seeded set-up history (3-15 requests) builds a state; then '
             '2-3 generated requests racing for one provider / consumer / '
             'inventory run on real threads under the baton-passing '
             'scheduler, pre-emption only before a top-level BEGIN '
             '(transaction granularity). Schedules: uniform random, 0-3 '
             'forced pre-emptions, or targeted (park A before its k-th '
             'transaction, run the others, resume A). Each batch is run '
             'under several schedules (quick: 5 drawn; thorough: EVERY '
             'single-pre-emption schedule - each request parked before each '
             'of its transactions, the others run in both orders - plus 4 '
             'uniform ones; for 8% of the batches additionally every '
             'schedule with TWO pre-emptions between its first two requests); '
             'the serial replays are computed once per batch. '
             'evaluations = batches; schedules executed are in '
             'reach_probes.schedules_run. distinct_nontrivial '
             'counts DISTINCT (request kinds, schedule signature = sequence '
             'of (task, transaction ordinal), statuses) triples among runs '
             'in which at least one context switch separated two '
             'transactions of one request.')
CONC_N = {'quick': 1200, 'thorough': 8000}
CONC_SCHED = {'quick': {'n_schedules': 5},
              'thorough': {'n_schedules': 4, 'enumerate': True,
                           'enumerate2': 0.08}}
CONC_ASSUME = [
    'interleavings are at database-transaction granularity with each '
    'transaction atomic and isolated (as the property states); weaker '
    'isolation levels (MySQL REPEATABLE READ snapshot reads, write skew) '
    'are not modelled',
]


BIG_N = {'quick': 6, 'thorough': 60}
BIG_RULE = (' Plus "bigpost" batches: one POST /allocations rewriting (or '
            'emptying) 101-130 consumers that a set-up POST created, racing '
            'one or two writes for single consumers of that set (first '
            'hundred, anywhere, last); each request is parked before its '
            'first, a middle and each of its last three transactions while '
            'the others run.')


def _conc_plan(prop, foci, text, big=False):
    def plan(tier):
        n = CONC_N[tier] // len(foci)
        return {
            'runs': [('conc', dict(CONC_SCHED[tier], focus=f), n)
                     for f in foci] + ([
                         ('conc', {'n_schedules': 5, 'focus': 'bigpost'},
                          BIG_N[tier])] if big else []),
            'level': 'exploration',
            'rule': CONC_RULE + ' ' + text + (BIG_RULE if big else ''),
            'assumptions': COMMON_ASSUMPTIONS + CONC_ASSUME,
        }
    return plan


PLANS['C05'] = _conc_plan('C05', ['provider', 'mixed', 'multi', 'reshape',
                                  'move'],
                          'Oracle: provider compare-and-swap specification '
                          'linearised by commit order from the commit log; '
                          'serial-permutation replay of the successes.')
PLANS['C06'] = _conc_plan('C06', ['consumer', 'mixed', 'reshape'],
                          'Oracle: consumer compare-and-swap specification '
                          'linearised by commit order; final allocations == '
                          'last success in commit order.', big=True)
PLANS['C07'] = _conc_plan('C07', ['mixed', 'provider', 'consumer', 'multi',
                                  'reshape'],
                          'Oracle: some serial permutation of the successful '
                          'requests, replayed from the start snapshot, gives '
                          'each of them success and the same stored state; '
                          'failures have no net effect; invariants on the '
                          'final state.', big=True)


FAULT_RULE = ('corpus entry = one generated write request (all write '
              'routes) in a state built by a seeded set-up history. A '
              'fault-free dry run records the ordinal of every SQL statement '
              'and commit the request performs and its twin result; then the '
              'request is re-executed from the restored snapshot once per '
              '(ordinal, fault kind). evaluations = simulated runs (corpus '
              'entries); fault points executed are reported as '
              'reach_probes.fault_points. distinct_nontrivial counts DISTINCT '
              'fault placements that actually fired: (corpus entry = request '
              'kind + sequence of statement verb+table + twin status, '
              'ordinal, fault kind); distinct corpus entries are reported as '
              'distinct_corpus_entries.')
FAULT_ASSUME = [
    'fault personalities are emulations at the DBAPI seam: deadlock-keep = '
    'lock wait timeout (transaction kept), deadlock-rollback = MySQL 1213 '
    '(server rolled the transaction back), dupkey = lost INSERT race (the '
    'winning row - the very same INSERT, executed by a side connection - becomes visible when the victim transaction ends; the clean-failure baseline is pre-state + winner rows), connlost '
    '= disconnect, dberror = other server error, commit-fail = commit '
    'rejected and rolled back',
    'ambiguous commits (applied but reported failed) are not injected',
    'the must-retry window of an allocation write is recognised by SQL '
    'shape: from the first statement on the allocations table inside the '
    'write transaction to the end of that transaction (reshaper: to the '
    'next statement on inventories)',
]


def _c17(tier):
    q = tier == 'quick'
    return {
        'runs': [('fault', {'max_points': 40 if q else 120,
                            'variant': 'big'}, 6 if q else 60),
                 ('fault', {'max_points': 45 if q else None,
                            'pairs': 3 if q else 12}, 420 if q else 3600),
                 ('fault', {'max_points': 45 if q else None,
                            'variant': 'tree'}, 70 if q else 600),
                 ('sync_fault', {'pairs': 0 if q else 1}, 32 if q else 300)],
        'level': 'fault_enumeration',
        'rule': FAULT_RULE + ' quick samples at most 45 (ordinal, kind) '
        'points per entry, always keeping the must-retry windows; thorough '
        'enumerates every point and adds seeded pairs of faults. Start-up '
        'synchronisation from empty / partially / fully synchronised '
        'databases is enumerated the same way (profile sync_fault). A '
        'third corpus (variant big) holds requests touching 101-130 rows of '
        'one kind, with fault points sampled along the whole request.',
        'assumptions': COMMON_ASSUMPTIONS + FAULT_ASSUME,
        'wall_cap': 280 if q else 6000,
    }


def _c18(tier):
    q = tier == 'quick'
    return {
        'runs': [('crash', {'max_points': 60 if q else 150,
                            'variant': 'big'}, 8 if q else 80),
                 ('crash', {'max_points': 40 if q else None},
                  520 if q else 4500),
                 ('crash', {'max_points': 40 if q else None,
                            'variant': 'tree'}, 160 if q else 1200)],
        'level': 'fault_enumeration',
        'rule': FAULT_RULE.replace('(ordinal, fault kind)',
                                   'crash point') +
        ' A second corpus (variant tree) builds provider forests and moves, '
        'detaches or deletes subtrees; a third (variant big) holds requests '
        'touching 101-130 rows of one kind (POST /allocations rewriting or '
        'emptying that many consumers, a reshaper moving them all to a new '
        'child provider, PUT/DELETE of that many traits, aggregates or '
        'inventories, a move of a tree that wide), with points sampled '
        'along the whole request (first 4, last 12, one from each of 30 '
        'equal stretches, every commit of a writing transaction). Crash points: before every statement, before and after every '
        'commit. The request thread is frozen for ever at the crash point, '
        'its connections are rolled back and closed; the surviving state is '
        'judged, then the service is restarted and probed.',
        'assumptions': COMMON_ASSUMPTIONS + [
            'a crash is modelled as: no further instruction of the request '
            'runs, the database rolls back the open transaction (connections '
            'closed); durability of committed transactions is delegated to '
            'the DBMS and not questioned'],
        'wall_cap': 280 if q else 6000,
    }


def _c19(tier):
    q = tier == 'quick'
    return {
        'runs': [('names', {}, 1800 if q else 12000),
                 ('sync_fault', {}, 32 if q else 150)],
        'level': 'exploration',
        'rule': 'seeded histories of trait / resource-class create, rename '
        'and delete requests (legal, illegal, boundary-length and standard '
        'names) interleaved with simulated restarts, from an empty, '
        'partially or fully synchronised start database (a random subset of '
        'the standard names removed). distinct_nontrivial counts DISTINCT '
        'stored (class name->id, trait names) states reached.',
        'assumptions': COMMON_ASSUMPTIONS + [
            'restart = module-level sync flags reset and '
            'deploy.update_database() run again in the same process'],
    }


def _c02(tier):
    q = tier == 'quick'
    return {
        'runs': [('cand_claim', {'big': 1003}, 1 if q else 6),
                 ('cand_claim', {}, 800 if q else 9000)],
        'level': 'exploration',
        'rule': 'a seeded set-up history (12-32 requests: nested and sharing '
        'providers, inventories with reserved/ratio/unit constraints, prior '
        'allocations) builds a state; then up to 6 generated GET '
        '/allocation_candidates queries (unsuffixed + up to 3 suffixed '
        'groups with overlapping classes, group_policy, required/forbidden/'
        'any-of traits, member_of, in_tree, root_required, same_subtree) at '
        'microversions 1.10-1.39. For every response: decomposition against '
        'the query, provider summaries against the dump, and every returned '
        'entry (first 25) is sent unchanged as PUT /allocations of a fresh '
        'consumer from a snapshot of the same state. distinct_nontrivial '
        'counts DISTINCT stored states in which at least one query was '
        'evaluated; candidates returned / claims are in reach_probes. '
        'One state per quick run (six per thorough run) is a deployment of '
        '1003 one-provider trees with inventory and traits, so that one '
        'answer carries more than a thousand candidates and summaries.',
        'assumptions': COMMON_ASSUMPTIONS + [
            'no independent notion of WHICH candidates should exist is used '
            '(that is C03, not applicable to this family)'],
    }


def _c20(tier):
    q = tier == 'quick'
    return {
        'runs': [('cand_limit', {'big': 1003}, 1 if q else 4),
                 ('cand_limit', {}, 320 if q else 5000)],
        'level': 'exploration',
        'rule': 'states and queries as for C02; for each (state, query) the '
        'unlimited result M with randomisation off, then every limit 1..|M|+1 '
        '(sampled above 12) under both settings of '
        'randomize_allocation_candidates and 8 seeds of the PRNG the code '
        'draws from (owned and re-seeded by the simulator). Below 1.34 '
        'results are compared as multisets (mappings, which tell equal '
        'allocations apart, are not exposed there). distinct_nontrivial '
        'counts DISTINCT stored states with a non-empty unlimited result.',
        'assumptions': COMMON_ASSUMPTIONS,
    }


PLANS['C02'] = _c02
PLANS['C20'] = _c20
PLANS['C17'] = _c17
PLANS['C18'] = _c18
PLANS['C19'] = _c19


def plan_for(prop, tier):
    p = PLANS.get(prop)
    if p is None:
        return None
    return p(tier)


def profile_fn(name):
    return profiles.PROFILES[name]


def replay_fn(name):
    return profiles.REPLAYS[name]


def shrinker(name):
    from psim import shrink
    return shrink.SHRINKERS.get(name)


class Aggregator(object):

    def __init__(self, prop, tier, seed, plan):
        self.prop = prop
        self.tier = tier
        self.seed = seed
        self.plan = plan
        self.runs = 0
        self.requests = 0
        self.states = set()
        self.by_kind = {}
        self.by_status = {}
        self.probes = {}
        self.faults = {}
        self.sim_seconds = 0.0
        self.samples = []
        self._scored = []
        self.entries = set()
        self.others = {}
        self.by_profile = {}
        self.extra = {}
        self.signatures = set()

    def add(self, res):
        self.runs += 1
        self.requests += res.get('requests', 0)
        self.by_profile[res['profile']] = \
            self.by_profile.get(res['profile'], 0) + 1
        for s in res.get('states', ()):
            self.states.add(s)
        for s in res.get('signatures', ()):
            self.signatures.add(s)
        if res.get('entry_signature'):
            self.entries.add(res['entry_signature'])
        for k, v in res.get('by_kind', {}).items():
            self.by_kind[k] = self.by_kind.get(k, 0) + v
        for k, v in res.get('by_status', {}).items():
            self.by_status[k] = self.by_status.get(k, 0) + v
        for k, v in res.get('probes', {}).items():
            self.probes[k] = self.probes.get(k, 0) + v
        for k, v in res.get('faults', {}).items():
            self.faults[k] = self.faults.get(k, 0) + v
        self.sim_seconds += res.get('sim_seconds', 0)
        if res.get('sample'):
            self._scored.append((res.get('sample_score', 0), self.runs, {
                'seed': res['seed'], 'profile': res['profile'],
                'history': res['sample']}))
            self._scored.sort(key=lambda x: (-x[0], x[1]))
            del self._scored[4:]
            self.samples = [x[2] for x in self._scored]

    def other_property(self, f):
        k = '%s %s' % ('/'.join(f['tags']), f['rule'])
        self.others[k] = self.others.get(k, 0) + 1

    def finish(self, wall, nviol, skipped, known_hits, harness_errors):
        self.wall = wall
        self.nviol = nviol
        self.skipped = skipped
        self.known_hits = {k: v[1] for k, v in known_hits.items()}
        self.harness_errors = len(harness_errors)

    def evidence(self):
        distinct = len(self.states) + len(self.signatures)
        cov = {
            'evaluations': self.runs,
            'distinct_nontrivial': distinct,
            'rule': self.plan['rule'],
            'samples': self.samples or [{'note': 'no sample recorded'}],
            'requests_executed': self.requests,
            'runs_by_profile': self.by_profile,
            'requests_by_kind': self.by_kind,
            'responses_by_status': self.by_status,
            'distinct_states': len(self.states),
            'distinct_schedule_signatures': len(self.signatures),
            'distinct_corpus_entries': len(self.entries),
            'faults_fired_by_kind': self.faults,
            'reach_probes': self.probes,
            'simulated_seconds': self.sim_seconds,
            'runs_per_hour': (self.runs / self.wall * 3600.0
                              if self.wall else 0),
            'runs_skipped_at_wall_cap': self.skipped,
            'known_findings_seen': self.known_hits,
            'findings_for_other_properties': self.others,
            'harness_errors': self.harness_errors,
            'real_vs_stub': REAL_STUB,
            'exhaustive': False,
        }
        cov.update(self.extra)
        return {
            'property_id': self.prop,
            'tier': self.tier,
            'seed': self.seed,
            'level': self.plan['level'],
            'coverage': cov,
            'assumptions': self.plan['assumptions'],
            'wall_s': round(self.wall, 2),
            'violations': self.nviol,
        }
