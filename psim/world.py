"""One simulated placement deployment ("world") per worker process.

Real: the complete placement WSGI pipeline from /repo, SQLAlchemy, oslo.db.
Stub: the database server (an SQLite file on tmpfs), keystone (noauth2) and the
HTTP transport (the WSGI callable is called directly).
"""
import atexit
import io
import json
import logging
import os
import shutil
import sqlite3
import sys
import tempfile
import warnings

REPO = os.environ.get('PSIM_REPO', '/repo')
if REPO not in sys.path:
    sys.path.insert(0, REPO)

warnings.filterwarnings('ignore')
logging.disable(logging.CRITICAL)

from oslo_config import cfg  # noqa: E402

ADMIN_HEADERS = {
    'x-auth-token': 'admin',
    'x-roles': 'admin,service,member,reader',
    'accept': 'application/json',
}


def _unquote(path):
    if '%' not in path:
        return path
    from urllib.parse import unquote_to_bytes
    return unquote_to_bytes(path).decode('latin-1')


class Response(object):
    __slots__ = ('status', 'headers', 'body', 'json')

    def __init__(self, status, headers, body):
        self.status = status
        self.headers = headers
        self.body = body
        self.json = None
        if body:
            try:
                self.json = json.loads(body)
            except ValueError:
                self.json = None

    def brief(self):
        code = None
        if isinstance(self.json, dict) and self.json.get('errors'):
            code = self.json['errors'][0].get('code')
        return {'status': self.status, 'code': code}

    def error_code(self):
        if isinstance(self.json, dict) and self.json.get('errors'):
            return self.json['errors'][0].get('code')
        return None


def _scratch_dir():
    base = '/dev/shm' if os.access('/dev/shm', os.W_OK) else None
    # the driver hands its workers one parent directory, which it removes
    # when it is done (workers are terminated, not asked to exit)
    parent = os.environ.get('PSIM_SCRATCH_PARENT')
    if parent and os.path.isdir(parent):
        base = parent
    d = tempfile.mkdtemp(prefix='psim-', dir=base)
    pid = os.getpid()

    def _rm():
        # only the creating process removes it (forked children inherit
        # the atexit hook).
        if os.getpid() == pid:
            shutil.rmtree(d, ignore_errors=True)
    atexit.register(_rm)
    return d


class World(object):
    """Builds the app once; isolates runs by snapshot/restore."""

    def __init__(self, foreign_keys=True):
        from placement import conf as pconf
        from placement import db_api
        from placement import deploy
        from placement import policy
        from placement.db.sqlalchemy import migration
        from sqlalchemy import event

        from psim import mutants
        self.mutant = mutants.apply_from_env()
        self.dir = _scratch_dir()
        self.dbpath = os.path.join(self.dir, 'placement.db')
        self.foreign_keys = foreign_keys

        conf = cfg.ConfigOpts()
        pconf.register_opts(conf)
        conf.set_override('connection', 'sqlite:///' + self.dbpath,
                          group='placement_database')
        conf.set_override('auth_strategy', 'noauth2', group='api')
        conf([], default_config_files=[])
        # deploy.deploy() reads conf.oslo_policy.enforce_scope, which the
        # installed oslo.policy no longer registers.  Register it on OUR
        # private ConfigOpts; nothing in /repo changes.
        from oslo_policy import opts as policy_opts
        policy_opts._register(conf)
        try:
            conf.register_opt(cfg.BoolOpt('enforce_scope', default=False),
                              group='oslo_policy')
        except cfg.DuplicateOptError:
            pass
        self.conf = conf

        policy.reset()
        db_api.configure(conf)
        self.engine = db_api.get_placement_engine()
        if foreign_keys:
            @event.listens_for(self.engine, 'connect')
            def _fk_on(dbapi_conn, rec):
                dbapi_conn.execute('PRAGMA foreign_keys=ON')
        # MySQL AUTO_INCREMENT and PostgreSQL sequences never hand out a
        # surrogate id twice; plain SQLite "INTEGER PRIMARY KEY" re-uses
        # max(id)+1 after a delete.  Make the stub behave like production.
        from placement.db.sqlalchemy import models
        for name, table in models.BASE.metadata.tables.items():
            if name == 'resource_classes':
                continue    # ids are assigned by the application
            pk = list(table.primary_key.columns)
            if len(pk) == 1 and pk[0].name == 'id':
                table.dialect_options['sqlite']['autoincrement'] = True
        migration.create_schema(self.engine)
        self.snap_empty = self.snapshot()
        self._reset_sync_flags()
        self.app = deploy.loadapp(conf)
        self.snap_synced = self.snapshot()
        self.req_seq = 0

    # -- process-level state -------------------------------------------
    @staticmethod
    def _reset_sync_flags():
        from placement.objects import resource_class
        from placement.objects import trait
        trait._TRAITS_SYNCED = False
        resource_class._RESOURCE_CLASSES_SYNCED = False

    def restart(self):
        """Simulated worker restart: start-up synchronisation runs again."""
        from placement import deploy
        self._reset_sync_flags()
        deploy.update_database(self.conf)

    def start_again(self):
        """Start-up attempted again IN THE SAME PROCESS (what mod_wsgi and
        uwsgi do when loading the application raised): module state - the
        "already synchronised" flags - is whatever the failed attempt
        left."""
        from placement import deploy
        deploy.update_database(self.conf)

    # -- snapshots (sqlite online backup API) ---------------------------
    def _side(self):
        c = sqlite3.connect(self.dbpath, isolation_level=None)
        return c

    def snapshot(self):
        src = self._side()
        mem = sqlite3.connect(':memory:')
        src.backup(mem)
        src.close()
        return mem

    def restore(self, snap):
        dst = self._side()
        snap.backup(dst)
        dst.close()

    # -- a second API worker process ------------------------------------------
    def start_peer(self):
        """Fork a second worker process (its own module state, caches and
        enforcer; the same database).  Requests sent to it are served by the
        same code, as by another uwsgi/gunicorn worker."""
        import multiprocessing
        if getattr(self, '_peer', None) is not None:
            return
        ctx = multiprocessing.get_context('fork')
        parent, child = ctx.Pipe()

        def serve(conn):
            import traceback
            while True:
                try:
                    msg = conn.recv()
                except EOFError:
                    return
                if msg is None:
                    return
                try:
                    r = self.request(*msg)
                    conn.send((r.status, r.headers, r.body))
                except Exception:
                    conn.send(('error', traceback.format_exc(), b''))
        p = ctx.Process(target=serve, args=(child,), daemon=True)
        p.start()
        child.close()
        self._peer = (p, parent)

    def peer_request(self, method, path, body=None, version=None,
                     headers=None):
        self.start_peer()
        p, conn = self._peer
        conn.send((method, path, body, version, headers))
        if not conn.poll(120):
            raise RuntimeError('peer worker hung')
        status, hdrs, data = conn.recv()
        if status == 'error':
            raise RuntimeError('peer worker failed: %s' % hdrs)
        return Response(status, hdrs, data)

    def stop_peer(self):
        if getattr(self, '_peer', None) is None:
            return
        p, conn = self._peer
        try:
            conn.send(None)
        except Exception:
            pass
        p.join(2)
        if p.is_alive():
            p.terminate()
        self._peer = None

    # -- requests ---------------------------------------------------------
    def request(self, method, path, body=None, version=None, headers=None):
        """Run one request through the full WSGI pipeline."""
        if '?' in path:
            path_info, qs = path.split('?', 1)
        else:
            path_info, qs = path, ''
        hdrs = dict(ADMIN_HEADERS)
        if version is not None:
            hdrs['openstack-api-version'] = 'placement %s' % version
        if headers:
            for k, v in headers.items():
                if v is None:
                    hdrs.pop(k.lower(), None)
                else:
                    hdrs[k.lower()] = v
        if body is not None and not isinstance(body, (bytes, str)):
            body = json.dumps(body)
        if isinstance(body, str):
            body = body.encode('utf-8')
        environ = {
            'REQUEST_METHOD': method,
            'SCRIPT_NAME': '',
            # a WSGI server hands the application the percent-DECODED
            # path (bytes shown as latin-1), PEP 3333
            'PATH_INFO': _unquote(path_info),
            'QUERY_STRING': qs,
            'SERVER_NAME': 'placement.sim',
            'SERVER_PORT': '80',
            'SERVER_PROTOCOL': 'HTTP/1.1',
            'wsgi.version': (1, 0),
            'wsgi.url_scheme': 'http',
            'wsgi.input': io.BytesIO(body or b''),
            'wsgi.errors': io.StringIO(),
            'wsgi.multithread': True,
            'wsgi.multiprocess': True,
            'wsgi.run_once': False,
        }
        if body is not None:
            environ['CONTENT_LENGTH'] = str(len(body))
            if 'content-type' not in hdrs:
                hdrs['content-type'] = 'application/json'
        for k, v in hdrs.items():
            key = k.upper().replace('-', '_')
            if key in ('CONTENT_TYPE', 'CONTENT_LENGTH'):
                environ[key] = v
            else:
                environ['HTTP_' + key] = v
        out = {}

        def start_response(status, response_headers, exc_info=None):
            out['status'] = int(status.split(' ', 1)[0])
            out['headers'] = {k.lower(): v for k, v in response_headers}
            return lambda data: None
        chunks = self.app(environ, start_response)
        try:
            data = b''.join(chunks)
        finally:
            close = getattr(chunks, 'close', None)
            if close:
                close()
        return Response(out['status'], out['headers'], data)
