"""python -m psim.replay FILE

Re-runs a replay file in a fresh interpreter.  Nothing is drawn from a PRNG:
requests, schedule and fault plan are explicit in the file.

exit 1  reproduced (prints the VIOLATION line)
exit 3  not reproduced (a harness bug by definition)
"""
import json
import os
import sys

HERE = os.path.dirname(os.path.dirname(os.path.abspath(__file__)))
if HERE not in sys.path:
    sys.path.insert(0, HERE)


def main(argv=None):
    argv = argv if argv is not None else sys.argv[1:]
    if os.environ.get('PYTHONHASHSEED') != '0':
        env = dict(os.environ)
        env['PYTHONHASHSEED'] = '0'
        os.execve(sys.executable, [sys.executable, '-m', 'psim.replay'] +
                  argv, env)
    path = argv[0]
    rp = json.load(open(path))
    from psim import plans
    from psim import seams
    from psim.world import World
    w = World()
    seams.install(w)
    seams.set_debug_logging(bool(rp.get('debug_log')))
    res = plans.replay_fn(rp['profile'])(w, rp)
    prop = rp.get('property')
    exp = rp['expect']
    hits = [f for f in res if (prop is None or prop in f['tags']) and
            f['rule'] == exp['rule'] and f.get('kind') == exp.get('kind')]
    if hits:
        f = hits[0]
        print('reproduced: rule=%s kind=%s\n  %s' % (
            f['rule'], f.get('kind'), f['detail'][:1500]))
        print('VIOLATION property=%s replay=%s' % (prop, path))
        return 1
    print('NOT REPRODUCED: expected %r, got %r' % (
        exp, [(f['rule'], f.get('kind')) for f in res]))
    return 3


if __name__ == '__main__':
    sys.exit(main())
