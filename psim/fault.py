"""Statement-fault enumeration (C17) and crash-point enumeration (C18).

For one generated write request R in a generated state:

1. a fault-free dry run records the ordinals of every SQL statement and
   commit R performs, and its *twin* result (status + stored state);
2. the state is restored;
3. for every ordinal k and every applicable fault kind the request is
   executed again with that single fault injected at k (C17), or the worker
   process "dies" there (C18);
4. the outcome is judged against the pre-state and the twin.
"""
import copy
import random

from psim import dump
from psim import invariants as inv
from psim import model as M
from psim import seams
from psim import workload

WRITE_MIX = {
    'alloc_put': 16, 'alloc_post': 10, 'reshape': 8,
    'inv_put_all': 6, 'inv_post': 3, 'inv_put_one': 3, 'inv_delete_one': 2,
    'inv_delete_all': 1, 'agg_put': 6, 'rpt_put': 4, 'rpt_delete': 1,
    'rp_create': 3, 'rp_update': 3, 'rp_delete': 2, 'trait_put': 2,
    'trait_delete': 1, 'rc_post': 1, 'rc_put': 2, 'rc_delete': 1,
    'rc_rename': 1, 'alloc_delete': 2,
}
ALLOC_KINDS = ('alloc_put', 'alloc_post', 'reshape')
MULTI_ENTITY = ('alloc_put', 'alloc_post', 'reshape', 'inv_put_all',
                'rpt_put', 'agg_put', 'inv_delete_all', 'rpt_delete')


def well_formed_error(resp, version):
    """errors guideline: status, title, detail, request_id (+ code)."""
    j = resp.json
    if not isinstance(j, dict) or not isinstance(j.get('errors'), list) \
            or not j['errors']:
        return 'body is not a JSON error document: %r' % (resp.body or b'')[:200]
    e = j['errors'][0]
    for k in ('status', 'title', 'detail', 'request_id'):
        if k not in e:
            return 'error object lacks %r' % k
    if e['status'] != resp.status:
        return 'error status %r != HTTP status %r' % (e['status'], resp.status)
    if M.ver(version or '1.0') >= (1, 23) and 'code' not in e:
        return 'error object lacks code at %s' % version
    return None


def alloc_window(ops, kind):
    """Ordinals (statement indices) of the allocation write proper: from the
    first statement on ``allocations`` inside the write transaction up to
    the end of that transaction (for the reshaper: up to the first later
    statement on ``inventories``).

    Returns (window, tail): ``tail`` is the part of the window after the
    first ``DELETE FROM consumers`` - the removal of emptied consumers that
    ends the allocation write proper; what follows (compare-and-swap and
    removal of consumers the write did not visit) belongs to the same
    transaction but is a separate step."""
    if kind not in ALLOC_KINDS:
        return set(), set()
    out = set()
    tail = set()
    k = -1
    started = False
    in_tail = False
    for (t, verb, table) in ops:
        if t == 'B':
            if verb == 'top':
                started = False
                in_tail = False
            continue
        if t == 'R':
            continue
        k += 1
        if t == 'C':
            started = False
            in_tail = False
            continue
        if not started and verb == 'DELETE' and table == 'allocations':
            started = True
        elif started and table == 'inventories':
            started = False
        if started:
            out.add(k)
            if in_tail:
                tail.add(k)
            if verb == 'DELETE' and table == 'consumers':
                in_tail = True
    return out, tail


def cleanup_window(ops):
    """Ordinals belonging to a transaction that does nothing but remove
    auto-created consumers (SELECT/DELETE on consumers only): the clean-up a
    failing request runs in a transaction of its own."""
    out = set()
    k = -1
    cur = []
    stmts = []

    def flush():
        if stmts and all(t == 'consumers' for (_, t) in stmts) and any(
                v == 'DELETE' for (v, _) in stmts):
            out.update(cur)
    for (t, verb, table) in ops:
        if t == 'B':
            if verb == 'top':
                flush()
                cur, stmts = [], []
            continue
        if t == 'R':
            continue
        k += 1
        cur.append(k)
        if t == 'S':
            stmts.append((verb, table))
    flush()
    return out


def dupkey_window(ops, kind):
    """Ordinal of the INSERT that first records an aggregate."""
    out = set()
    k = -1
    for (t, verb, table) in ops:
        if t in ('B', 'R'):
            continue
        k += 1
        if t == 'S' and verb == 'INSERT' and table == 'placement_aggregates':
            out.add(k)
    return out


class FaultRun(object):

    def __init__(self, world, seed, mode, knobs=None, setup_ops=None,
                 request=None, plan=None, exhaustive=True, max_points=None,
                 pairs=0, variant=None):
        self.variant = variant
        self.world = world
        self.seed = seed
        self.mode = mode            # 'fault' | 'crash'
        self.knobs = dict(knobs or {})
        self.fixed_setup = setup_ops
        self.fixed_request = request
        self.fixed_plan = plan      # list of [ordinal, kind] (replay)
        self.exhaustive = exhaustive
        self.max_points = max_points
        self.pairs = pairs
        self.findings = []
        self.stats = {'requests': 0, 'faults': {}, 'probes': {},
                      'points': 0, 'outcomes': {}}

    def probe(self, name, n=1):
        self.stats['probes'][name] = self.stats['probes'].get(name, 0) + n

    def add(self, tags, rule, detail, plan, sig_extra=''):
        self.findings.append({
            'tags': sorted(tags), 'rule': rule, 'detail': detail,
            'kind': self.request['kind'], 'sig_extra': sig_extra,
            'plan': [list(p) for p in plan]})

    # ------------------------------------------------------------------
    def _do(self, sim, op, threaded=False):
        w = self.world
        self.stats['requests'] += 1

        def fn():
            return w.request(op['m'], op['p'], op.get('b'), op.get('v'))
        if threaded:
            t = sim.spawn(fn)
            sim.run()
            return t
        return sim.run_inline(fn)

    def setup_state(self):
        w = self.world
        w.restore(w.snap_synced)
        seams.seed_process(self.seed)
        for k, v in self.knobs.items():
            w.conf.set_override(k, v, group='placement')
        conf = w.conf
        self.rng = random.Random(self.seed)
        self.model = M.Model(
            incomplete_project=conf.placement.incomplete_consumer_project_id,
            incomplete_user=conf.placement.incomplete_consumer_user_id)
        sim = seams.Sim(w, seed=self.seed, trace_sql=False)
        self.setup_ops = []
        if self.fixed_setup is not None:
            for op in self.fixed_setup:
                self._do(sim, op)
                self.setup_ops.append(workload.op_brief(op))
            return True
        rng = self.rng
        if self.variant == 'big':
            return self._setup_big(sim)
        if self.variant == 'tree':
            # provider forests: the request will move or remove a subtree
            self.gen = workload.Gen(
                rng, n_providers=rng.choice([5, 6, 8]), n_consumers=2,
                invalid_rate=0.0, max_total=8,
                mix={'rp_create': 20, 'rp_update': 6, 'inv_post': 2,
                     'alloc_put': 2, 'rpt_put': 1, 'agg_put': 1})
            n_setup = rng.randint(6, 16)
        else:
            self.gen = workload.Gen(
                rng, n_providers=rng.choice([2, 3, 4]),
                n_consumers=rng.choice([2, 3, 4]), invalid_rate=0.05,
                max_total=rng.choice([4, 8, 12]),
                mix=dict(workload.DEFAULT_MIX, read=0, rp_delete=1,
                         alloc_put=14, alloc_post=6, inv_put_all=10,
                         rp_create=10, agg_put=4, trait_put=3, rc_put=2,
                         rc_rename=0))
            n_setup = rng.randint(2, 12)
        for i in range(n_setup):
            op = self.gen.next_op(self.model)
            pre = self.model.clone()
            exp = self.model.apply(op)
            r = self._do(sim, op).result
            self.setup_ops.append(workload.op_brief(op))
            if r.status != exp.status:
                self.model = pre
                return False
            self.model.adopt(dump.natural(w))
        return True

    # -- requests that touch more than a hundred rows ---------------------
    def _setup_big(self, sim):
        from psim import scale
        rng = self.rng
        w = self.world
        self.gen = workload.Gen(rng, n_providers=2, n_consumers=2)
        n = rng.choice([101, 104, 130])
        self.big_kind = kind = rng.choice(
            ['consumers', 'consumers', 'reshape', 'traits', 'aggregates',
             'tree', 'inventories'])
        P, C, A = scale.P, scale.C, scale.A
        ops = [{'m': 'POST', 'p': '/resource_providers', 'v': '1.39',
                'b': {'name': 'big-1', 'uuid': P(1)}}]
        v = self.big_v = rng.choice(['1.28', '1.36', '1.38', '1.39'])

        def abody(c, rp, amount, gen=None):
            b = {'project_id': 'proj-0', 'user_id': 'user-0',
                 'consumer_generation': gen,
                 'allocations': {rp: {'resources': {'VCPU': amount}}}
                 if amount else {}}
            if M.ver(v) >= (1, 38):
                b['consumer_type'] = 'INSTANCE'
            return b
        self._abody = abody
        if kind in ('consumers', 'reshape'):
            ops.append({'m': 'PUT', 'v': '1.39',
                        'p': '/resource_providers/%s/inventories' % P(1),
                        'b': {'resource_provider_generation': 0,
                              'inventories': {'VCPU': {'total': 4 * n}}}})
            self.big_cons = [C(i) for i in range(n)]
            ops.append({'m': 'POST', 'p': '/allocations', 'v': v,
                        'b': {c: abody(c, P(1), 1) for c in self.big_cons}})
        elif kind == 'traits':
            self.big_traits = rng.sample(sorted(M.STD_TRAITS), n)
            ops.append({'m': 'PUT', 'v': '1.39',
                        'p': '/resource_providers/%s/traits' % P(1),
                        'b': {'resource_provider_generation': 0,
                              'traits': self.big_traits}})
        elif kind == 'aggregates':
            ops.append({'m': 'PUT', 'v': '1.39',
                        'p': '/resource_providers/%s/aggregates' % P(1),
                        'b': {'resource_provider_generation': 0,
                              'aggregates': [A(i) for i in range(n)]}})
        elif kind == 'tree':
            ops.append({'m': 'POST', 'p': '/resource_providers', 'v': '1.39',
                        'b': {'name': 'big-2', 'uuid': P(2)}})
            members = [P(1)]
            for i in range(n):
                parent = P(1) if rng.random() < 0.6 else rng.choice(members)
                ops.append({'m': 'POST', 'p': '/resource_providers',
                            'v': '1.39',
                            'b': {'name': 'big-c%d' % i, 'uuid': P(10 + i),
                                  'parent_provider_uuid': parent}})
                members.append(P(10 + i))
        else:
            self.big_rcs = ['CUSTOM_BIG_%03d' % i for i in range(n)]
            for nm in self.big_rcs:
                ops.append({'m': 'PUT', 'p': '/resource_classes/' + nm,
                            'v': '1.39'})
            ops.append({'m': 'PUT', 'v': '1.39',
                        'p': '/resource_providers/%s/inventories' % P(1),
                        'b': {'resource_provider_generation': 0,
                              'inventories': {nm: {'total': 8}
                                              for nm in self.big_rcs}}})
        from psim import profiles
        for op in ops:
            op['kind'] = profiles._kind_of(op)
            exp = self.model.apply(op)
            r = self._do(sim, op).result
            self.setup_ops.append(workload.op_brief(op))
            if r.status != exp.status:
                return False
            if op['m'] != 'POST' or op['p'] != '/resource_providers' \
                    or op is ops[-1]:
                self.model.adopt(dump.natural(w))
        self.model.adopt(dump.natural(w))
        return True

    def _request_big(self):
        from psim import scale
        from psim import profiles
        rng = self.rng
        m = self.model
        P, A = scale.P, scale.A
        kind = self.big_kind
        v = self.big_v
        g1 = m.providers[P(1)]['generation']
        if kind == 'consumers':
            amount = rng.choice([0, 2])
            op = {'m': 'POST', 'p': '/allocations', 'v': v,
                  'b': {c: self._abody(c, P(1), amount,
                                       m.consumers[c]['generation'])
                        for c in self.big_cons}}
        elif kind == 'reshape':
            # everything moves from the provider to a new child of it
            child = P(2)
            op0 = {'m': 'POST', 'p': '/resource_providers', 'v': '1.39',
                   'b': {'name': 'big-child', 'uuid': child,
                         'parent_provider_uuid': P(1)}}
            op0['kind'] = 'rp_create'
            self.model.apply(op0)
            sim = seams.Sim(self.world, seed=self.seed, trace_sql=False)
            self._do(sim, op0)
            self.setup_ops.append(workload.op_brief(op0))
            self.model.adopt(dump.natural(self.world))
            total = m.inventories[(P(1), 'VCPU')]['total']
            vv = rng.choice(['1.30', '1.34', '1.38', '1.39'])
            allocs = {}
            for c in self.big_cons:
                b = {'project_id': 'proj-0', 'user_id': 'user-0',
                     'consumer_generation': m.consumers[c]['generation'],
                     'allocations': {child: {'resources': {'VCPU': 1}}}}
                if M.ver(vv) >= (1, 38):
                    b['consumer_type'] = 'INSTANCE'
                allocs[c] = b
            op = {'m': 'POST', 'p': '/reshaper', 'v': vv, 'b': {
                'inventories': {
                    P(1): {'resource_provider_generation':
                           m.providers[P(1)]['generation'],
                           'inventories': {}},
                    child: {'resource_provider_generation': 0,
                            'inventories': {'VCPU': {'total': total}}}},
                'allocations': allocs}}
        elif kind == 'traits':
            if rng.random() < 0.3:
                op = {'m': 'DELETE', 'v': '1.39',
                      'p': '/resource_providers/%s/traits' % P(1)}
            else:
                keep = rng.sample(self.big_traits, rng.choice([0, 1, 50]))
                op = {'m': 'PUT', 'v': '1.39',
                      'p': '/resource_providers/%s/traits' % P(1),
                      'b': {'resource_provider_generation': g1,
                            'traits': keep}}
        elif kind == 'aggregates':
            op = {'m': 'PUT', 'v': '1.39',
                  'p': '/resource_providers/%s/aggregates' % P(1),
                  'b': {'resource_provider_generation': g1,
                        'aggregates': [A(0), A(5000)]}}
        elif kind == 'tree':
            op = {'m': 'PUT', 'v': rng.choice(['1.37', '1.39']),
                  'p': '/resource_providers/' + P(1),
                  'b': {'name': 'big-1', 'parent_provider_uuid': P(2)}}
            if rng.random() < 0.25:
                # ... or the root of all of them goes away: refused
                op = {'m': 'DELETE', 'v': '1.39',
                      'p': '/resource_providers/' + P(1)}
        else:
            r = rng.random()
            if r < 0.3:
                op = {'m': 'DELETE', 'v': '1.39',
                      'p': '/resource_providers/%s/inventories' % P(1)}
            elif r < 0.6:
                op = {'m': 'DELETE', 'v': '1.39',
                      'p': '/resource_providers/' + P(1)}
            else:
                half = self.big_rcs[::2]
                op = {'m': 'PUT', 'v': '1.39',
                      'p': '/resource_providers/%s/inventories' % P(1),
                      'b': {'resource_provider_generation': g1,
                            'inventories': {nm: {'total': 9}
                                            for nm in half}}}
        op['kind'] = profiles._kind_of(op)
        return op

    def _big_plans(self, plans):
        """Thousands of statements: keep the first few, the last dozen and
        one point from each of 30 equal stretches of the request."""
        rng = self.rng
        by_ord = {}
        for p in plans:
            by_ord.setdefault(p[0][0], []).append(p)
        ords = sorted(by_ord)
        if len(ords) <= 60:
            return plans
        pick = set(ords[:4]) | set(ords[-12:])
        n_b = 30
        for b in range(n_b):
            lo = len(ords) * b // n_b
            hi = max(lo + 1, len(ords) * (b + 1) // n_b)
            pick.add(ords[rng.randrange(lo, hi)])
        # every commit point of a transaction that wrote something is kept
        wrote = False
        k = -1
        for (tt, verb, table) in self.ops:
            if tt in ('B', 'R'):
                if tt == 'B' and verb == 'top':
                    wrote = False
                continue
            k += 1
            if tt == 'S' and verb in ('INSERT', 'UPDATE', 'DELETE'):
                wrote = True
            if tt == 'C' and wrote:
                pick.add(k)
        out = []
        for o in sorted(pick):
            cands = by_ord.get(o, [])
            if not cands:
                continue
            if o in ords[-12:] or len(cands) == 1:
                out.extend(cands)
            else:
                out.extend(rng.sample(cands, min(2, len(cands))))
        return out

    def gen_request(self):
        g = self.gen
        if self.variant == 'big':
            return self._request_big()
        if self.variant == 'tree':
            g.invalid_rate = 0.0
            m = self.model
            best = None
            for _ in range(30):
                op = g.g_rp_update(m)
                if op is None:
                    continue
                op.setdefault('kind', 'rp_update')
                u = op['p'].split('/')[2]
                moves = (op.get('note') in ('reparent', 'unparent') and
                         u in m.providers and
                         M.ver(op['v']) >= (1, 14) and
                         op['b'].get('parent_provider_uuid', 0) !=
                         m.providers[u]['parent'])
                if moves and len(m.subtree(u)) >= 2 and \
                        M.ver(op['v']) >= (1, 37):
                    return op
                if moves and best is None:
                    best = op
            if best is not None and self.rng.random() < 0.7:
                return best
            g.mix = {'rp_update': 5, 'rp_delete': 3, 'rp_create': 2}
            return g.next_op(m)
        g.mix = dict(WRITE_MIX)
        g.invalid_rate = 0.1
        op = g.next_op(self.model)
        return op

    # ------------------------------------------------------------------
    def run(self):
        try:
            return self._run()
        finally:
            for k in self.knobs:
                self.world.conf.clear_override(k, group='placement')

    def _run(self):
        w = self.world
        if not self.setup_state():
            self.stats['setup_anomaly'] = 1
            return self.findings
        if self.fixed_request is not None:
            R = copy.deepcopy(self.fixed_request)
        else:
            R = self.gen_request()
        self.request = R
        kind = R['kind']
        self.snap0 = w.snapshot()
        self.raw0 = dump.raw(w)
        self.nat0 = dump.natural(w, self.raw0)
        # ---- dry run: ordinals + twin ------------------------------------
        sim = seams.Sim(w, seed=self.seed, trace_sql=True)
        t = self._do(sim, R)
        self.twin_status = t.result.status
        self.twin_raw = dump.raw(w)
        self.twin_nat = dump.natural(w, self.twin_raw)
        self.ops = t.ops
        self.n_ord = t.nops
        ordinals = []          # (k, 'S'|'C', verb, table)
        k = -1
        for (tt, verb, table) in t.ops:
            if tt in ('B', 'R'):
                continue
            k += 1
            ordinals.append((k, tt, verb, table))
        self.ordinals = ordinals
        self.win_alloc, self.win_tail = alloc_window(t.ops, kind)
        # Preferred: the statements executed while _set_allocations (the
        # function the property's anchors name as carrying the retry) is on
        # the Python stack; robust against re-ordering of statements inside
        # it.  The SQL-shape window above is the fall-back when no such
        # frame was seen (renamed function).
        body = set(k_ for k_, lb in enumerate(t.stmt_labels)
                   if lb == '_set_allocations')
        if body and kind in ALLOC_KINDS:
            # ordinals of the same top-level transaction after the body
            txn_of = {}
            txn = 0
            k_ = -1
            for (tt, verb, table) in t.ops:
                if tt == 'B':
                    if verb == 'top':
                        txn += 1
                    continue
                if tt == 'R':
                    continue
                k_ += 1
                txn_of[k_] = txn
            last = max(body)
            tail = set(x for x, tx in txn_of.items()
                       if tx == txn_of[last] and x > last and
                       t.ops and self._is_stmt(t.ops, x))
            if kind == 'reshape':
                tail = set()    # the final inventory step follows there
            self.win_alloc = body | tail
            self.win_tail = tail
        if self.twin_status >= 400:
            self.win_alloc, self.win_tail = set(), set()
        self.win_dup = dupkey_window(t.ops, kind)
        self.win_cleanup = cleanup_window(t.ops)
        w.restore(self.snap0)
        # ---- the plans -------------------------------------------------------
        if self.fixed_plan is not None:
            plans = [[tuple(p) for p in self.fixed_plan]]
        else:
            plans = self.make_plans()
        import time as _time
        t_start = _time.time()
        for i_plan, plan in enumerate(plans):
            if self.variant == 'big' and self.fixed_plan is None and \
                    _time.time() - t_start > 90:
                # a loaded machine explores fewer points of these long
                # requests; it never changes a verdict
                self.probe('big_points_not_reached', len(plans) - i_plan)
                break
            self.stats['points'] += 1
            if self.mode == 'fault':
                self.one_fault(R, plan)
            else:
                self.one_crash(R, plan)
            w.restore(self.snap0)
        return self.findings

    @staticmethod
    def _is_stmt(ops, ordinal):
        k_ = -1
        for (tt, verb, table) in ops:
            if tt in ('B', 'R'):
                continue
            k_ += 1
            if k_ == ordinal:
                return tt == 'S'
        return False

    def make_plans(self):
        rng = self.rng
        plans = []
        for (k, tt, verb, table) in self.ordinals:
            if self.mode == 'fault':
                if tt == 'S':
                    kinds = ['deadlock-keep', 'deadlock-rollback', 'connlost',
                             'dberror']
                    if verb == 'INSERT' and table in seams.DUPKEY_TABLES:
                        kinds.append('dupkey')
                else:
                    kinds = ['commit-fail']
            else:
                kinds = ['crash-before'] if tt == 'S' else \
                    ['crash-before', 'crash-after']
            for kd in kinds:
                plans.append([(k, kd)])
        if self.variant == 'big':
            plans = self._big_plans(plans)
        if self.max_points and len(plans) > self.max_points:
            # keep every point inside the must-retry windows, sample the rest
            must = [p for p in plans if p[0][0] in self.win_alloc or
                    p[0][0] in self.win_dup]
            rest = [p for p in plans if p not in must]
            rng.shuffle(rest)
            rng.shuffle(must)
            plans = (must + rest)[:self.max_points]
        if self.mode == 'fault' and self.pairs:
            singles = [p for p in plans if p[0][1].startswith('deadlock')]
            for _ in range(min(self.pairs, len(singles))):
                p = rng.choice(singles)
                k2 = p[0][0] + rng.randint(1, 14)
                kd2 = rng.choice(['deadlock-keep', 'deadlock-rollback',
                                  'dberror', 'connlost'])
                plans.append([p[0], (k2, kd2)])
        return plans

    # ------------------------------------------------------------------
    def _faults(self, plan):
        return {(0, k): kd for (k, kd) in plan}

    def gens_ok(self, nat):
        """Generations are opaque: they must move where the twin's moved and
        stay where the twin's stayed."""
        bad = []
        for key in ('providers', 'consumers'):
            for u, obj in nat[key].items():
                pre = self.nat0[key].get(u)
                tw = self.twin_nat[key].get(u)
                if pre is None or tw is None:
                    continue
                g0, gt, g = (pre['generation'], tw['generation'],
                             obj['generation'])
                if gt > g0 and not g > g0:
                    bad.append('%s %s: generation %d, twin moved %d -> %d' % (
                        key, u, g, g0, gt))
                if gt == g0 and g != g0:
                    bad.append('%s %s: generation %d -> %d, twin left it' % (
                        key, u, g0, g))
        return bad

    def classify(self, status, raw, nat):
        core = dump.natural_core(nat, generations=False)
        is_pre = (dump.raw_core(raw) == dump.raw_core(self.raw0))
        is_twin = (core == dump.natural_core(self.twin_nat,
                                             generations=False))
        return is_pre, is_twin

    def one_fault(self, R, plan):
        w = self.world
        kind = R['kind']
        sim = seams.Sim(w, seed=self.seed, trace_sql=False,
                        faults=self._faults(plan))
        t = self._do(sim, R)
        resp = t.result
        fired = [kd for (_, kd) in t.fired]
        for kd in fired:
            self.stats['faults'][kd] = self.stats['faults'].get(kd, 0) + 1
        if not fired:
            self.probe('fault_did_not_fire')
            return
        self.stats.setdefault('fired_points', []).append(
            '/'.join('%d:%s' % (k_, kd_) for (k_, kd_) in t.fired))
        raw = dump.raw(w)
        nat = dump.natural(w, raw)
        is_pre, is_twin = self.classify(resp.status, raw, nat)
        k0, kd0 = plan[0]
        # live position of every fault that fired (second faults have no
        # dry-run ordinal)
        live = []
        for n_, ctx in enumerate(t.fired_ctx):
            tabs = [tb for (_, tb) in ctx]
            if t.fired_label[n_] == '_set_allocations' or \
                    ('DELETE', 'allocations') in ctx:
                pos_ = 'alloc-window'
            elif n_ > 0 and tabs and all(tb == 'consumers' for tb in tabs):
                pos_ = 'consumer-cleanup'
            else:
                pos_ = 'elsewhere'
            live.append((t.fired[n_][1], pos_))
        winners = getattr(t, 'flushed_winners', [])
        if winners and not is_pre:
            # the rows of the race winner are the environment's doing: the
            # baseline for "as if never made" is pre-state + winner rows
            post = w.snapshot()
            w.restore(self.snap0)
            side = w._side()
            for stmt, params, many in winners:
                try:
                    if many:
                        side.executemany(stmt, params)
                    else:
                        side.execute(stmt, params)
                except Exception:
                    pass
            side.close()
            raw_alt = dump.raw(w)
            w.restore(post)
            if dump.raw_core(raw) == dump.raw_core(raw_alt) and \
                    dump.aux_grew_only(raw_alt, raw):
                is_pre = True
        in_alloc = k0 in self.win_alloc
        in_dup = k0 in self.win_dup
        single = len(plan) == 1 or len(fired) == 1
        pos = ('alloc-tail' if k0 in self.win_tail else 'alloc-window') \
            if in_alloc else (
            'aggregate-insert' if in_dup else (
                'consumer-cleanup' if k0 in self.win_cleanup
                else 'elsewhere'))
        desc = 'fault %s at ordinal %d (%s %s, %s); response %d; twin %d' % (
            kd0, k0, self.ordinals[k0][2] if k0 < len(self.ordinals) else '?',
            self.ordinals[k0][3] if k0 < len(self.ordinals) else '?', pos,
            resp.status, self.twin_status)
        if len(plan) > 1:
            desc += '; second fault %r (fired: %r)' % (plan[1], fired)
        same_status_class = (resp.status < 400) == (self.twin_status < 400)
        outcome = None
        if resp.status < 400:
            # claims success
            if self.twin_status >= 400:
                outcome = 'success-where-twin-failed'
                self.add({'C17'}, 'success-where-twin-failed', desc, plan,
                         '%s/%s' % (kd0, pos))
            elif is_twin:
                gb = self.gens_ok(nat)
                dup = inv.inv_refs(nat)
                if gb:
                    outcome = 'applied-generations-wrong'
                    self.add({'C17'}, 'applied-but-generations-wrong',
                             desc + '; ' + '; '.join(gb[:3]), plan,
                             '%s/%s' % (kd0, pos))
                elif dup:
                    outcome = 'applied-dangling'
                    self.add({'C17'}, 'applied-but-dangling',
                             desc + '; ' + '; '.join(dup[:3]), plan,
                             '%s/%s' % (kd0, pos))
                else:
                    outcome = 'applied-once'
            else:
                d = dump.diff(dump.natural_core(self.twin_nat, False),
                              dump.natural_core(nat, False))
                what = sorted(set(x.split(']')[0].strip("['") for x in d))
                outcome = 'success-but-not-twin'
                kd_sig, pos_sig = kd0, pos
                if len(fired) > 1 and ('deadlock-rollback',
                                       'alloc-window') in live:
                    # the second fault is what made the retry lose work
                    kd_sig, pos_sig = 'deadlock-rollback', 'alloc-window'
                self.add({'C17'}, 'success-but-state-differs-from-twin',
                         desc + '; diff vs twin: ' + '; '.join(d[:5]), plan,
                         '%s/%s/%s' % (kd_sig, pos_sig, '+'.join(what)))
        else:
            wf = well_formed_error(resp, R.get('v'))
            if wf:
                self.add({'C17'}, 'malformed-error-response',
                         desc + '; ' + wf, plan, kd0)
            if kd0 == 'dupkey' and is_twin:
                # lost the INSERT race to an identical row: the "winner"
                # (environment) created exactly what the request wanted
                outcome = 'lost-race-to-identical-winner'
            elif is_pre and (winners or dump.aux_grew_only(self.raw0, raw)):
                outcome = 'clean-failure'
                must = single and (
                    (in_alloc and kd0.startswith('deadlock')) or
                    (in_dup and kd0 == 'dupkey'))
                if must and self.twin_status < 400:
                    outcome = 'not-retried'
                    self.add({'C17'}, 'fault-not-retried',
                             desc + ' (a retryable fault inside the '
                             'operation the property says is retried)',
                             plan, '%s/%s/%d' % (kd0, pos, resp.status))
            elif is_twin and self.twin_status >= 400:
                outcome = 'same-rejection-as-twin'
            else:
                d = dump.diff(dump.raw_core(self.raw0), dump.raw_core(raw))
                what = sorted(set(x.split(']')[0].strip("['") for x in d))
                outcome = 'failure-with-effect'
                sig = '%s/%s/%s' % (kd0, pos, '+'.join(what))
                if what == ['consumers'] and (
                        pos == 'consumer-cleanup' or
                        any(p_ == 'consumer-cleanup' for (_, p_) in live)):
                    # the fault hit the clean-up transaction itself
                    sig = 'consumer-cleanup-transaction-failed'
                self.add({'C17'}, 'failed-but-state-changed',
                         desc + '; diff vs pre-state: ' + '; '.join(d[:5]),
                         plan, sig)
        self.stats['outcomes'][outcome] = \
            self.stats['outcomes'].get(outcome, 0) + 1
        # ---- progress once faults stop --------------------------------------
        sim2 = seams.Sim(w, seed=self.seed, trace_sql=False)
        if outcome in ('clean-failure', 'not-retried'):
            r2 = self._do(sim2, R).result
            raw2 = dump.raw(w)
            nat2 = dump.natural(w, raw2)
            ok = (r2.status == self.twin_status and dump.natural_core(
                nat2, False) == dump.natural_core(self.twin_nat, False))
            if winners:
                # the race winner's rows make this a different world from
                # the dry run's: only require that the service still answers
                ok = r2.status < 500
            # auxiliary rows recorded by the failed attempt may change
            # nothing but ids; anything else is poisoning
            if not ok:
                self.add({'C17'}, 'no-progress-after-fault',
                         desc + '; the same request, re-issued fault-free, '
                         'answered %d (twin %d)%s' % (
                             r2.status, self.twin_status,
                             '' if r2.status != self.twin_status else
                             ' with a different state'), plan, kd0)
        else:
            p = {'m': 'POST', 'p': '/resource_providers', 'v': '1.39',
                 'b': {'name': 'probe-rp',
                       'uuid': 'bbbbbbbb-bbbb-4bbb-8bbb-000000000000'}}
            r2 = self._do(sim2, p).result
            r3 = self._do(sim2, {'m': 'GET', 'p': '/resource_providers/'
                                 'bbbbbbbb-bbbb-4bbb-8bbb-000000000000',
                                 'v': '1.39'}).result
            if r2.status != 200 or r3.status != 200:
                self.add({'C17'}, 'no-progress-after-fault',
                         desc + '; probe create/read answered %d/%d' % (
                             r2.status, r3.status), plan, kd0)

    # ------------------------------------------------------------------
    def one_crash(self, R, plan):
        w = self.world
        kind = R['kind']
        sim = seams.Sim(w, seed=self.seed, trace_sql=False,
                        faults=self._faults(plan))
        t = self._do(sim, R, threaded=True)
        for (_, kd) in t.fired:
            self.stats['faults'][kd] = self.stats['faults'].get(kd, 0) + 1
        if t.state == 'crashed':
            self.stats.setdefault('fired_points', []).append(
                '/'.join('%d:%s' % (k_, kd_) for (k_, kd_) in t.fired))
        if t.state != 'crashed':
            self.probe('crash_did_not_fire')
            return
        self.stats['crashed'] = self.stats.get('crashed', 0) + 1
        try:
            self._judge_crash(R, plan, t)
        finally:
            sim.reap(t)

    def _judge_crash(self, R, plan, t):
        w = self.world
        kind = R['kind']
        raw = dump.raw(w)
        nat = dump.natural(w, raw)
        k0, kd0 = plan[0]
        o = self.ordinals[k0] if k0 < len(self.ordinals) else (k0, '?', '?',
                                                                 '?')
        desc = '%s at ordinal %d (%s %s %s) of %s' % (
            kd0, k0, o[1], o[2], o[3], kind)
        # ---- core invariants on the surviving state ---------------------------
        over = inv.overcommitted(nat)
        over0 = inv.overcommitted(self.nat0)
        overT = inv.overcommitted(self.twin_nat)
        for key in over:
            if key not in over0 and key not in overT:
                self.add({'C18', 'C01'}, 'crash-left-overcommit',
                         desc + ': %r used %d capacity %r' % (
                             key, over[key][0], over[key][1]), plan,
                         'overcommit')
        for msg in inv.inv_refs(nat):
            self.add({'C18', 'C08'}, 'crash-left-dangling', desc + ': ' + msg,
                     plan, 'dangling')
        for msg in inv.inv_forest(nat):
            self.add({'C18', 'C09'}, 'crash-left-broken-forest',
                     desc + ': ' + msg, plan, 'forest')
        for msg in inv.inv_consumer_iff_alloc(nat,
                                              allow_empty_consumers=True):
            self.add({'C18'}, 'crash-left-allocations-without-consumer',
                     desc + ': ' + msg, plan, 'orphan')
        # ---- wholly old or wholly new --------------------------------------------
        core = dump.natural_core(nat, generations=True)
        core0 = dump.natural_core(self.nat0, generations=True)
        coreT = dump.natural_core(self.twin_nat, generations=True)

        def strip_empty_consumers(c):
            c = dict(c)
            holders = set(x[0] for x in c['allocations'])
            c['consumers'] = {u: v for u, v in c['consumers'].items()
                              if u in holders}
            return c
        s = strip_empty_consumers(core)
        s0 = strip_empty_consumers(core0)
        sT = strip_empty_consumers(coreT)
        if s == s0:
            state = 'old'
        elif s == sT:
            state = 'new'
        else:
            state = 'mixed'
            d0 = dump.diff(s0, s)
            dT = dump.diff(sT, s)
            what = sorted(set(x.split(']')[0].strip("['") for x in d0))
            self.add({'C18', 'C04'}, 'crash-left-partial-effect',
                     desc + ': surviving state is neither the pre-state '
                     '(diff: %s) nor the complete result (diff: %s)' % (
                         '; '.join(d0[:4]), '; '.join(dT[:4])), plan,
                     '+'.join(what))
        self.stats['outcomes'][state] = \
            self.stats['outcomes'].get(state, 0) + 1
        # aggregates are recorded in the same transaction as their first
        # association: a crash must not leave one behind on its own
        if nat['aggregate_uuids'] not in (self.nat0['aggregate_uuids'],
                                          self.twin_nat['aggregate_uuids']):
            self.add({'C18'}, 'crash-left-partial-effect',
                     desc + ': aggregate records %r are neither the '
                     'pre-state\'s nor the complete result\'s' % (
                         nat['aggregate_uuids'],), plan, 'aggregates')
        extra_cons = [u for u in core['consumers']
                      if u not in s['consumers']]
        if extra_cons:
            self.probe('residue_consumer_without_allocations')
        # ---- restart + probe ---------------------------------------------------------
        w.restart()
        sim2 = seams.Sim(w, seed=self.seed, trace_sql=False)
        p = {'m': 'POST', 'p': '/resource_providers', 'v': '1.39',
             'b': {'name': 'probe-rp',
                   'uuid': 'bbbbbbbb-bbbb-4bbb-8bbb-000000000000'}}
        r2 = self._do(sim2, p).result
        r3 = self._do(sim2, {'m': 'GET', 'p': '/resource_providers', 'v':
                             '1.39'}).result
        if r2.status != 200 or r3.status != 200:
            self.add({'C18'}, 'no-progress-after-crash',
                     desc + '; probe create/list answered %d/%d' % (
                         r2.status, r3.status), plan, 'probe')
