"""Canonical dumps of the twelve placement tables, read through a side
connection while no simulated transaction is open.

raw      keeps surrogate ids (before/after equality of one execution)
natural  rewrites ids to natural keys (comparison across executions)
"""
import hashlib

DATA_TABLES = [
    ('resource_providers',
     'id, uuid, name, generation, root_provider_id, parent_provider_id'),
    ('inventories',
     'id, resource_provider_id, resource_class_id, total, reserved, '
     'min_unit, max_unit, step_size, allocation_ratio'),
    ('allocations',
     'id, resource_provider_id, consumer_id, resource_class_id, used'),
    ('resource_provider_aggregates', 'resource_provider_id, aggregate_id'),
    ('resource_provider_traits', 'resource_provider_id, trait_id'),
    ('consumers',
     'id, uuid, project_id, user_id, generation, consumer_type_id'),
    ('resource_classes', 'id, name'),
    ('traits', 'id, name'),
    ('placement_aggregates', 'id, uuid'),
]
AUX_TABLES = [
    ('projects', 'id, external_id'),
    ('users', 'id, external_id'),
    ('consumer_types', 'id, name'),
]


def raw(world, conn=None):
    own = conn is None
    c = conn or world._side()
    try:
        out = {}
        for t, cols in DATA_TABLES + AUX_TABLES:
            out[t] = sorted(
                c.execute('SELECT %s FROM %s' % (cols, t)).fetchall(),
                key=repr)
        return out
    finally:
        if own:
            c.close()


def raw_core(r):
    """The part of a raw dump a rejected request must leave untouched."""
    return {t: r[t] for t, _ in DATA_TABLES if t != 'placement_aggregates'}


def aux_grew_only(before, after):
    """projects/users/consumer_types/placement_aggregates may only gain rows."""
    for t in ('projects', 'users', 'consumer_types', 'placement_aggregates'):
        b = set(before[t])
        a = set(after[t])
        if not b <= a:
            return False
    return True


def natural(world, r=None):
    r = r or raw(world)
    rp_by_id = {row[0]: row for row in r['resource_providers']}
    rc_by_id = {row[0]: row[1] for row in r['resource_classes']}
    tr_by_id = {row[0]: row[1] for row in r['traits']}
    ag_by_id = {row[0]: row[1] for row in r['placement_aggregates']}
    pj_by_id = {row[0]: row[1] for row in r['projects']}
    us_by_id = {row[0]: row[1] for row in r['users']}
    ct_by_id = {row[0]: row[1] for row in r['consumer_types']}

    def rp(i):
        if i is None:
            return None
        row = rp_by_id.get(i)
        return row[1] if row else '?rp%s' % i

    def rc(i):
        return rc_by_id.get(i, '?rc%s' % i)

    providers = {}
    for (i, uuid, name, gen, root, parent) in r['resource_providers']:
        providers[uuid] = {'name': name, 'generation': gen,
                           'parent': rp(parent), 'root': rp(root)}
    inventories = {}
    inv_dups = []
    for (i, rpid, rcid, total, res, mn, mx, st, ratio) in r['inventories']:
        k = (rp(rpid), rc(rcid))
        if k in inventories:
            inv_dups.append(k)
        inventories[k] = (total, res, mn, mx, st, ratio)
    allocations = sorted(
        (cons, rp(rpid), rc(rcid), used)
        for (i, rpid, cons, rcid, used) in r['allocations'])
    traits = sorted((rp(rpid), tr_by_id.get(tid, '?tr%s' % tid))
                    for (rpid, tid) in r['resource_provider_traits'])
    aggs = sorted((rp(rpid), ag_by_id.get(aid, '?ag%s' % aid))
                  for (rpid, aid) in r['resource_provider_aggregates'])
    consumers = {}
    for (i, uuid, pid, uid, gen, ctid) in r['consumers']:
        consumers[uuid] = {
            'generation': gen,
            'project': pj_by_id.get(pid, '?pj%s' % pid),
            'user': us_by_id.get(uid, '?us%s' % uid),
            'type': (None if ctid is None
                     else ct_by_id.get(ctid, '?ct%s' % ctid)),
        }
    return {
        'providers': providers,
        'inventories': inventories,
        'inv_dups': inv_dups,
        'allocations': allocations,
        'traits': traits,
        'aggregates': aggs,
        'consumers': consumers,
        'classes': sorted(n for n in rc_by_id.values()),
        'class_ids': dict((n, i) for i, n in rc_by_id.items()),
        'trait_names': sorted(tr_by_id.values()),
        'projects': sorted(pj_by_id.values()),
        'users': sorted(us_by_id.values()),
        'consumer_types': sorted(ct_by_id.values()),
        'aggregate_uuids': sorted(ag_by_id.values()),
    }


CORE_KEYS = ('providers', 'inventories', 'allocations', 'traits',
             'aggregates', 'consumers', 'classes', 'trait_names')


def natural_core(n, generations=True):
    """What two executions must agree on (auxiliary rows excluded)."""
    out = {k: n[k] for k in CORE_KEYS}
    if not generations:
        out = dict(out)
        out['providers'] = {
            u: {k: v for k, v in p.items() if k != 'generation'}
            for u, p in n['providers'].items()}
        out['consumers'] = {
            u: {k: v for k, v in c.items() if k != 'generation'}
            for u, c in n['consumers'].items()}
    return out


def diff(a, b, path=''):
    """Small human-readable diff of two nested structures."""
    out = []
    if isinstance(a, dict) and isinstance(b, dict):
        for k in sorted(set(a) | set(b), key=repr):
            if k not in a:
                out.append('%s[%r]: + %r' % (path, k, b[k]))
            elif k not in b:
                out.append('%s[%r]: - %r' % (path, k, a[k]))
            elif a[k] != b[k]:
                out.extend(diff(a[k], b[k], '%s[%r]' % (path, k)))
    elif isinstance(a, list) and isinstance(b, list):
        sa = [x for x in a if x not in b]
        sb = [x for x in b if x not in a]
        for x in sa:
            out.append('%s: - %r' % (path, x))
        for x in sb:
            out.append('%s: + %r' % (path, x))
        if not sa and not sb and a != b:
            out.append('%s: multiplicity/order %r vs %r' % (path, a, b))
    else:
        out.append('%s: %r -> %r' % (path, a, b))
    return out


def digest(obj):
    return hashlib.sha256(repr(obj).encode('utf-8')).hexdigest()[:16]


def cas_state(world):
    """Provider and consumer generations plus a digest of all data tables,
    taken right after a commit (commit log)."""
    c = world._side()
    try:
        prov = dict(c.execute(
            'SELECT uuid, generation FROM resource_providers').fetchall())
        cons = dict(c.execute(
            'SELECT uuid, generation FROM consumers').fetchall())
        allocs = {}
        for cu, rpu, rcid, used in c.execute(
                'SELECT a.consumer_id, rp.uuid, a.resource_class_id, a.used '
                'FROM allocations a JOIN resource_providers rp '
                'ON rp.id = a.resource_provider_id').fetchall():
            allocs.setdefault(cu, []).append((rpu, rcid, used))
        for v in allocs.values():
            v.sort()
        h = hashlib.sha256()
        for t, cols in DATA_TABLES:
            if t == 'placement_aggregates':
                continue
            rows = c.execute('SELECT %s FROM %s ORDER BY 1,2' %
                             (cols, t)).fetchall()
            h.update(repr(rows).encode('utf-8'))
        return {'prov': prov, 'cons': cons, 'allocs': allocs,
                'digest': h.hexdigest()[:16]}
    finally:
        c.close()
