"""Allocation-candidate profiles.

C02  every returned candidate can be claimed exactly as returned: the
     two-step history "GET /allocation_candidates at event i, PUT
     /allocations of a returned entry at event i+1" from a snapshot, plus
     decomposition and provider-summary checks against the dump.
C20  limit / randomisation only select from the full candidate set: the
     subject is a source of nondeterminism (random.sample / random.shuffle)
     which the simulator owns and re-seeds.

No independent notion of WHICH candidates should exist is used (that is C03,
not applicable to this technique family).
"""
import json
import random

from psim import dump
from psim import model as M
from psim import seams
from psim import workload

CAND_VERSIONS = ['1.10', '1.12', '1.16', '1.17', '1.21', '1.22', '1.24',
                 '1.25', '1.26', '1.27', '1.28', '1.29', '1.31', '1.32',
                 '1.33', '1.34', '1.35', '1.36', '1.38', '1.39']

SETUP_MIX = {'rp_create': 14, 'rp_update': 2, 'inv_put_all': 16,
             'inv_post': 3, 'inv_put_one': 3, 'rpt_put': 8, 'agg_put': 8,
             'alloc_put': 10, 'alloc_post': 4, 'trait_put': 2, 'rc_put': 2,
             'alloc_delete': 1}


def canon(ar):
    a = ar.get('allocations')
    if isinstance(a, list):
        a = sorted(((x['resource_provider']['uuid'],
                     sorted(x['resources'].items())) for x in a))
    else:
        a = sorted((rp, sorted(d['resources'].items()))
                   for rp, d in a.items())
    mp = ar.get('mappings')
    if mp is not None:
        mp = sorted((k, sorted(v)) for k, v in mp.items())
    return json.dumps([a, mp])


def ar_as_dict(ar):
    a = ar['allocations']
    if isinstance(a, list):
        return {x['resource_provider']['uuid']: dict(x['resources'])
                for x in a}
    return {rp: dict(d['resources']) for rp, d in a.items()}


class CandRun(object):

    def __init__(self, world, seed, mode, ops=None, query=None, big=None):
        self.big = big              # that many flat one-provider trees
        self.world = world
        self.seed = seed
        self.mode = mode            # 'claim' (C02) | 'limit' (C20)
        self.fixed_ops = ops
        self.fixed_query = query
        self.findings = []
        self.stats = {'requests': 0, 'probes': {}, 'queries': 0}
        self.samples = []

    def probe(self, name, n=1):
        self.stats['probes'][name] = self.stats['probes'].get(name, 0) + n

    def add(self, tags, rule, detail, query):
        self.findings.append({
            'tags': sorted(tags), 'rule': rule, 'detail': detail,
            'kind': 'candidates', 'query': query})

    def req(self, m, p, b=None, v=None):
        w = self.world
        self.stats['requests'] += 1
        return self.sim.run_inline(lambda: w.request(m, p, b, v)).result

    # ------------------------------------------------------------------
    def build_state(self):
        w = self.world
        w.restore(w.snap_synced)
        seams.seed_process(self.seed)
        self.rng = rng = random.Random(self.seed)
        self.sim = seams.Sim(w, seed=self.seed, trace_sql=False)
        self.model = M.Model()
        self.ops = []
        if self.fixed_ops is not None:
            for op in self.fixed_ops:
                self.req(op['m'], op['p'], op.get('b'), op.get('v'))
                self.ops.append(op)
            self.gen = workload.Gen(rng)
            return True
        g = workload.Gen(rng, n_providers=rng.choice([3, 5, 7]),
                         n_consumers=4, invalid_rate=0.0,
                         max_total=rng.choice([6, 12, 16]), mix=SETUP_MIX)
        g.roomy = True
        self.gen = g
        # half of the states start from a deliberate topology: compute
        # nodes with NUMA-like children, a sharing provider reachable
        # through a common aggregate, a second sharing provider in another
        # aggregate - the shapes the candidate code has separate paths for
        template = []
        if self.big:
            # a deployment of more than a thousand compute nodes: one
            # candidate and one summary each
            from psim import scale
            tr = ['HW_CPU_X86_AVX', 'HW_CPU_X86_AVX2', 'STORAGE_DISK_SSD',
                  'CUSTOM_TR_A']
            template.append({'m': 'PUT', 'p': '/traits/CUSTOM_TR_A',
                             'v': '1.39', 'kind': 'trait_put'})
            for i in range(self.big):
                u = scale.P(i)
                template.append({'m': 'POST', 'p': '/resource_providers',
                                 'v': '1.39', 'kind': 'rp_create',
                                 'b': {'name': 'cn-%d' % i, 'uuid': u}})
                template.append({
                    'm': 'PUT', 'kind': 'inv_put_all', 'v': '1.39',
                    'p': '/resource_providers/%s/inventories' % u,
                    'b': {'resource_provider_generation': 0,
                          'inventories': {'VCPU': {'total': 8},
                                          'MEMORY_MB': {'total': 64}}}})
                template.append({
                    'm': 'PUT', 'kind': 'rpt_put', 'v': '1.39',
                    'p': '/resource_providers/%s/traits' % u,
                    'b': {'resource_provider_generation': 1,
                          'traits': rng.sample(tr, rng.choice([1, 2, 3]))}})
            g.P = [scale.P(i) for i in rng.sample(range(self.big), 5)] + \
                [scale.P(self.big - 1)]
        elif rng.random() < 0.18:
            # several flat compute nodes behind ONE aggregate with a sharing
            # disk provider (every node is an anchor of it), some of them
            # with local disk as well: the same sharing-only candidate is
            # produced once per anchor
            P = g.P
            agg1 = g.A[0]
            self.sharing_heavy = True
            n_cn = min(len(P) - 1, rng.choice([2, 3, 4]))
            local = set(rng.sample(range(n_cn), rng.randint(1, n_cn - 1)))
            for c in range(n_cn):
                cn = P[c]
                rcs = ['VCPU', 'MEMORY_MB'] + (['DISK_GB'] if c in local
                                               else [])
                template.append({'m': 'POST', 'p': '/resource_providers',
                                 'v': '1.39', 'kind': 'rp_create',
                                 'b': {'name': 'cn-%d' % c, 'uuid': cn}})
                template.append({
                    'm': 'PUT', 'kind': 'inv_put_all', 'v': '1.39',
                    'p': '/resource_providers/%s/inventories' % cn,
                    'b': {'resource_provider_generation': 0,
                          'inventories': {rc: g.gen_inventory()
                                          for rc in rcs}}})
                template.append({
                    'm': 'PUT', 'kind': 'agg_put', 'v': '1.39',
                    'p': '/resource_providers/%s/aggregates' % cn,
                    'b': {'resource_provider_generation': 1,
                          'aggregates': [agg1]}})
            ss = P[n_cn]
            template.append({'m': 'POST', 'p': '/resource_providers',
                             'v': '1.39', 'kind': 'rp_create',
                             'b': {'name': 'shared-disk', 'uuid': ss}})
            template.append({
                'm': 'PUT', 'kind': 'inv_put_all', 'v': '1.39',
                'p': '/resource_providers/%s/inventories' % ss,
                'b': {'resource_provider_generation': 0,
                      'inventories': {'DISK_GB': g.gen_inventory()}}})
            template.append({
                'm': 'PUT', 'kind': 'rpt_put', 'v': '1.39',
                'p': '/resource_providers/%s/traits' % ss,
                'b': {'resource_provider_generation': 1,
                      'traits': ['MISC_SHARES_VIA_AGGREGATE']}})
            template.append({
                'm': 'PUT', 'kind': 'agg_put', 'v': '1.39',
                'p': '/resource_providers/%s/aggregates' % ss,
                'b': {'resource_provider_generation': 2,
                      'aggregates': [agg1]}})
        elif rng.random() < 0.55:
            P = g.P
            agg1, agg2 = g.A[0], g.A[1]

            def inv(**kw):
                return {rc: g.gen_inventory() for rc in kw.get('rcs')}
            n_cn = rng.choice([1, 2])
            idx = 0
            cns = []
            for c in range(n_cn):
                cn = P[idx]
                idx += 1
                cns.append(cn)
                template.append({'m': 'POST', 'p': '/resource_providers',
                                 'v': '1.39', 'kind': 'rp_create',
                                 'b': {'name': 'cn-%d' % c, 'uuid': cn}})
                template.append({
                    'm': 'PUT', 'kind': 'inv_put_all', 'v': '1.39',
                    'p': '/resource_providers/%s/inventories' % cn,
                    'b': {'resource_provider_generation': 0,
                          'inventories': inv(rcs=rng.choice(
                              [['VCPU', 'MEMORY_MB'], ['MEMORY_MB'],
                               ['VCPU', 'MEMORY_MB', 'DISK_GB']]))}})
                template.append({
                    'm': 'PUT', 'kind': 'agg_put', 'v': '1.39',
                    'p': '/resource_providers/%s/aggregates' % cn,
                    'b': {'resource_provider_generation': 1,
                          'aggregates': [agg1] if c == 0 or
                          rng.random() < 0.5 else [agg2]}})
                for k in range(rng.choice([0, 1, 2])):
                    if idx >= len(P) - 1:
                        break
                    ch = P[idx]
                    idx += 1
                    template.append({
                        'm': 'POST', 'p': '/resource_providers',
                        'v': '1.39', 'kind': 'rp_create',
                        'b': {'name': 'numa-%d-%d' % (c, k), 'uuid': ch,
                              'parent_provider_uuid': cn}})
                    template.append({
                        'm': 'PUT', 'kind': 'inv_put_all', 'v': '1.39',
                        'p': '/resource_providers/%s/inventories' % ch,
                        'b': {'resource_provider_generation': 0,
                              'inventories': inv(rcs=rng.choice(
                                  [['VCPU'], ['VCPU', 'MEMORY_MB'],
                                   ['DISK_GB']]))}})
            if idx < len(P):
                ss = P[idx]
                idx += 1
                template.append({'m': 'POST', 'p': '/resource_providers',
                                 'v': '1.39', 'kind': 'rp_create',
                                 'b': {'name': 'shared-disk', 'uuid': ss}})
                template.append({
                    'm': 'PUT', 'kind': 'inv_put_all', 'v': '1.39',
                    'p': '/resource_providers/%s/inventories' % ss,
                    'b': {'resource_provider_generation': 0,
                          'inventories': inv(rcs=['DISK_GB'])}})
                template.append({
                    'm': 'PUT', 'kind': 'rpt_put', 'v': '1.39',
                    'p': '/resource_providers/%s/traits' % ss,
                    'b': {'resource_provider_generation': 1,
                          'traits': ['MISC_SHARES_VIA_AGGREGATE']}})
                template.append({
                    'm': 'PUT', 'kind': 'agg_put', 'v': '1.39',
                    'p': '/resource_providers/%s/aggregates' % ss,
                    'b': {'resource_provider_generation': 2,
                          'aggregates': [agg1]}})
        for op in template:
            exp = self.model.apply(op)
            r = self.req(op['m'], op['p'], op.get('b'), op.get('v'))
            self.ops.append(workload.op_brief(op))
            if r.status != exp.status:
                return False
            if not self.big:
                self.model.adopt(dump.natural(w))
            elif isinstance(r.json, dict) and \
                    'resource_provider_generation' in r.json:
                # (a full dump per request would be quadratic here)
                u_ = op['p'].split('/')[2]
                self.model.providers[u_]['generation'] = \
                    r.json['resource_provider_generation']
        if self.big:
            self.model.adopt(dump.natural(w))
        for i in range((rng.randint(6 if template else 12, 32)
                        if not getattr(self, 'sharing_heavy', False)
                        else rng.randint(0, 6))
                       if not self.big else 8):
            op = g.next_op(self.model)
            pre = self.model.clone()
            exp = self.model.apply(op)
            r = self.req(op['m'], op['p'], op.get('b'), op.get('v'))
            self.ops.append(workload.op_brief(op))
            if r.status != exp.status:
                self.model = pre
                return False
            self.model.adopt(dump.natural(w))
        return True

    def gen_query(self, nat):
        rng = self.rng
        g = self.gen
        m = self.model
        v = rng.choice(CAND_VERSIONS)
        vv = M.ver(v)
        classes = sorted(set(rc for (_, rc) in nat['inventories']))
        if not classes:
            return None
        params = []
        groups = {}

        # classes offered by one provider tree plus the sharing providers:
        # most queries should have at least one answer
        roots = sorted(set(p['root'] for p in nat['providers'].values()))
        root = rng.choice(roots)
        sharing = set(p for (p, t) in nat['traits']
                      if t == 'MISC_SHARES_VIA_AGGREGATE')
        tree_classes = sorted(set(
            rc for (p, rc) in nat['inventories']
            if nat['providers'][p]['root'] == root or p in sharing))
        if tree_classes and rng.random() < 0.8:
            classes = tree_classes

        def resources():
            cs = rng.sample(classes, rng.randint(1, min(2, len(classes))))
            return {c: rng.choice([1, 1, 1, 2, 2, 3, 4]) for c in cs}

        def res_str(d):
            return ','.join('%s:%d' % kv for kv in sorted(d.items()))
        traits = sorted(set(t for (_, t) in nat['traits'])) or \
            ['HW_CPU_X86_AVX']
        aggs = sorted(set(a for (_, a) in nat['aggregates']))
        provs = sorted(nat['providers'])

        def add_filters(sfx):
            if vv >= (1, 17) and rng.random() < 0.2:
                ts = rng.sample(traits, rng.randint(1, min(2, len(traits))))
                parts = []
                for t in ts:
                    if vv >= (1, 22) and rng.random() < 0.3:
                        parts.append('!' + t)
                    else:
                        parts.append(t)
                if vv >= (1, 39) and len(parts) > 1 and rng.random() < 0.4 \
                        and not any(p.startswith('!') for p in parts):
                    params.append(('required' + sfx, 'in:' + ','.join(parts)))
                else:
                    params.append(('required' + sfx, ','.join(parts)))
            if vv >= (1, 21) and aggs and rng.random() < 0.15:
                a = rng.sample(aggs, rng.randint(1, min(2, len(aggs))))
                if vv >= (1, 32) and rng.random() < 0.3:
                    params.append(('member_of' + sfx, '!' + a[0]))
                elif len(a) > 1:
                    params.append(('member_of' + sfx, 'in:' + ','.join(a)))
                else:
                    params.append(('member_of' + sfx, a[0]))
            if vv >= (1, 31) and rng.random() < 0.1:
                params.append(('in_tree' + sfx, rng.choice(provs)))
        heavy = getattr(self, 'sharing_heavy', False)
        if heavy and 'DISK_GB' in classes and rng.random() < 0.7:
            classes = ['DISK_GB']
        has_unsuffixed = vv < (1, 25) or rng.random() < (
            0.35 if heavy else 0.7)
        if has_unsuffixed:
            groups[''] = resources()
            params.append(('resources', res_str(groups[''])))
            add_filters('')
        n_sfx = 0
        if vv >= (1, 25):
            n_sfx = rng.choice([0, 1, 1, 2, 3]) if has_unsuffixed \
                else rng.choice([1, 2, 3])
        sfxs = []
        for i in range(n_sfx):
            if vv >= (1, 33) and rng.random() < 0.5:
                s = '_' + rng.choice(['A', 'B', 'C', 'net-1'])
                while s in sfxs:
                    s += 'x'
            else:
                s = str(i + 1)
            sfxs.append(s)
            groups[s] = resources()
            if groups and rng.random() < 0.3:
                # several groups asking for the same class (they may land on
                # one provider, e.g. a sharing one)
                other = rng.choice(sorted(groups))
                rc_ = rng.choice(sorted(groups[other]))
                groups[s] = {rc_: rng.choice([1, 2, 3, 5])}
            params.append(('resources' + s, res_str(groups[s])))
            add_filters(s)
        if n_sfx > 1 or (n_sfx == 1 and rng.random() < 0.3):
            params.append(('group_policy', rng.choice(['none', 'isolate'])))
        if vv >= (1, 35) and rng.random() < 0.15:
            t = rng.choice(traits)
            params.append(('root_required',
                           ('!' if rng.random() < 0.4 else '') + t))
        subtree_members = list(sfxs)
        if vv >= (1, 36) and sfxs and rng.random() < 0.25:
            # a resourceless request group: traits only, tied to the others
            # through same_subtree
            s = '_T'
            params.append(('required' + s, rng.choice(traits)))
            subtree_members.append(s)
            if not any(k == 'group_policy' for k, _ in params):
                params.append(('group_policy',
                               rng.choice(['none', 'isolate'])))
            params.append(('same_subtree', ','.join(
                ['_T'] + rng.sample(sfxs, rng.randint(1, len(sfxs))))))
        elif vv >= (1, 36) and len(sfxs) >= 2 and rng.random() < 0.3:
            params.append(('same_subtree', ','.join(
                rng.sample(sfxs, rng.randint(2, len(sfxs))))))
        if rng.random() < 0.5:
            # the order of the parameters in the query string is free
            rng.shuffle(params)
        return {'v': v, 'params': params, 'groups': groups}

    @staticmethod
    def qs(params):
        from urllib.parse import quote
        return '&'.join('%s=%s' % (k, quote(str(val), safe=':,!'))
                        for k, val in params)

    # ------------------------------------------------------------------
    def run(self):
        w = self.world
        if not self.build_state():
            self.stats['setup_anomaly'] = 1
            return self.findings
        self.snap = w.snapshot()
        self.nat = dump.natural(w)
        # what is returned must be claimable in either setting
        rand_claims = (self.mode == 'claim' and self.fixed_query is None and
                       self.rng.random() < 0.3)
        if rand_claims:
            self.probe('claim_runs_with_randomisation')
        n_q = 1 if self.fixed_query is not None else (
            6 if self.mode == 'claim' else 3)
        for _ in range(n_q):
            q = self.fixed_query or self.gen_query(self.nat)
            if q is None:
                break
            self.stats['queries'] += 1
            if self.mode == 'claim':
                if rand_claims:
                    q['randomize'] = self.rng.randrange(1, 1000)
                self.check_claim(q)
            else:
                self.check_limit(q)
            w.restore(self.snap)
        w.conf.clear_override('randomize_allocation_candidates',
                              group='placement')
        return self.findings

    # ------------------------------------------------------------------
    def check_claim(self, q):
        w = self.world
        nat = self.nat
        v = q['v']
        vv = M.ver(v)
        params = list(q['params'])
        path = '/allocation_candidates?' + self.qs(params)
        import random as grandom
        w.conf.set_override('randomize_allocation_candidates',
                            bool(q.get('randomize')), group='placement')
        # (the seed of the PRNG the code shuffles with is part of the query
        # description, so that a replay sees the same order)
        grandom.seed(q.get('randomize') or 0)
        r = self.req('GET', path, None, v)
        if r.status != 200:
            if r.status >= 500:
                # a 5xx for a valid query is C15/C03 territory (not claimed
                # by this technique family); recorded, not reported as C02
                self.add({'C15'}, 'server-error', '%s -> %d %s' % (
                    path, r.status, (r.body or b'')[:200]), q)
            else:
                self.probe('query_rejected_%d' % r.status)
            return
        body = r.json
        ars = body['allocation_requests']
        sums = body['provider_summaries']
        self.probe('candidates_returned', len(ars))
        if not ars:
            self.probe('empty_result')
            return
        if len(self.samples) < 2:
            self.samples.append({'version': v, 'query': path,
                                 'n_candidates': len(ars),
                                 'first': ars[0]})
        used = {}
        for (c, rp, rc, n) in nat['allocations']:
            used[(rp, rc)] = used.get((rp, rc), 0) + n
        groups = q['groups']
        want_total = {}
        for sfx, res in groups.items():
            for rc, n in res.items():
                want_total[rc] = want_total.get(rc, 0) + n
        multi = any(len(ar_as_dict(ar)) > 1 for ar in ars)
        if multi:
            self.probe('multi_provider_candidates')
        for idx, ar in enumerate(ars):
            ad = ar_as_dict(ar)
            where = 'candidate %d of %s' % (idx, path)
            # (a) providers exist
            for rp in ad:
                if rp not in nat['providers']:
                    self.add({'C02'}, 'unknown-provider', '%s names %s' % (
                        where, rp), q)
            # (b) decomposition
            got_total = {}
            for rp, res in ad.items():
                for rc, n in res.items():
                    got_total[rc] = got_total.get(rc, 0) + n
                    if n <= 0:
                        self.add({'C02'}, 'non-positive-amount', where, q)
            if got_total != want_total:
                self.add({'C02'}, 'amounts-do-not-sum-to-request',
                         '%s places %r, requested %r' % (
                             where, got_total, want_total), q)
            if vv >= (1, 34):
                mp = ar.get('mappings')
                if mp is None:
                    self.add({'C02'}, 'mappings-missing', where, q)
                else:
                    self.check_decomposition(q, where, ad, mp, groups, nat)
            # (d) summaries
            named = set(ad)
            if vv >= (1, 34) and ar.get('mappings'):
                for lst in ar['mappings'].values():
                    named |= set(lst)
            for rp in ad:
                s = sums.get(rp)
                if s is None:
                    self.add({'C02'}, 'summary-missing',
                             '%s: no provider summary for %s' % (where, rp),
                             q)
                    continue
                self.check_summary(q, where, rp, s, nat, used, vv,
                                   want_total)
        # (c) claim each candidate from the same state
        snap = self.snap
        cap = 25
        for idx, ar in enumerate(ars[:cap]):
            w.restore(snap)
            c = 'dddddddd-dddd-4ddd-8ddd-%012d' % idx
            b = {'allocations': ar['allocations']}
            if vv >= (1, 34) and 'mappings' in ar and self.rng.random() < 0.7:
                b['mappings'] = ar['mappings']
            if vv >= (1, 8):
                b['project_id'] = 'claim-proj'
                b['user_id'] = 'claim-user'
            if vv >= (1, 28):
                b['consumer_generation'] = None
            if vv >= (1, 38):
                b['consumer_type'] = 'INSTANCE'
            r2 = self.req('PUT', '/allocations/' + c, b, v)
            self.probe('claims')
            if r2.status != 204:
                self.add({'C02'}, 'candidate-not-claimable',
                         'candidate %d of %s (%s) sent unchanged as PUT '
                         '/allocations/%s at %s answered %d: %s' % (
                             idx, path, json.dumps(ar)[:300], c, v,
                             r2.status, (r2.body or b'')[:300]), q)
        w.restore(snap)

    def check_decomposition(self, q, where, ad, mp, groups, nat):
        rem = {rp: dict(res) for rp, res in ad.items()}
        for sfx, res in groups.items():
            if sfx == '':
                continue
            provs = mp.get(sfx)
            if not provs or len(provs) != 1:
                self.add({'C02'}, 'suffixed-group-not-on-one-provider',
                         '%s: mappings[%r] = %r' % (where, sfx, provs), q)
                return
            p = provs[0]
            for rc, n in res.items():
                have = rem.get(p, {}).get(rc, 0)
                if have < n:
                    self.add({'C02'}, 'group-resources-not-on-mapped-'
                             'provider', '%s: group %r wants %s:%d on %s, '
                             'candidate has %d there' % (
                                 where, sfx, rc, n, p, have), q)
                    return
                rem[p][rc] = have - n
        un = groups.get('', {})
        provs = mp.get('', []) if un else []
        for rc, n in un.items():
            hit = [p for p in provs if rem.get(p, {}).get(rc, 0) == n]
            if not hit:
                self.add({'C02'}, 'unsuffixed-class-not-on-one-mapped-'
                         'provider', '%s: %s:%d of the unsuffixed group is '
                         'not placed in full on one provider of '
                         'mappings[\'\'] = %r (left over: %r)' % (
                             where, rc, n, provs, rem), q)
                return
            rem[hit[0]][rc] -= n
        left = {rp: {rc: n for rc, n in res.items() if n}
                for rp, res in rem.items()}
        left = {rp: res for rp, res in left.items() if res}
        if left:
            self.add({'C02'}, 'candidate-places-more-than-requested',
                     '%s: unexplained amounts %r' % (where, left), q)
        if un and set(mp.get('', [])) - set(ad):
            self.add({'C02'}, 'mapping-names-provider-without-resources',
                     '%s: mappings[\'\'] = %r, allocations on %r' % (
                         where, mp.get(''), sorted(ad)), q)

    def check_summary(self, q, where, rp, s, nat, used, vv, want_total):
        invs = {rc: i for (p, rc), i in nat['inventories'].items()
                if p == rp}
        res = s.get('resources', {})
        if vv >= (1, 27):
            if set(res) != set(invs):
                self.add({'C02'}, 'summary-classes', '%s: summary of %s '
                         'lists %r, inventories are %r' % (
                             where, rp, sorted(res), sorted(invs)), q)
        for rc, d in res.items():
            i = invs.get(rc)
            if i is None:
                self.add({'C02'}, 'summary-class-without-inventory',
                         '%s: %s %s' % (where, rp, rc), q)
                continue
            cap = int((i[0] - i[1]) * i[5])
            if d.get('capacity') != cap:
                self.add({'C02'}, 'summary-capacity', '%s: %s %s capacity '
                         '%r, stored inventory gives %d' % (
                             where, rp, rc, d.get('capacity'), cap), q)
            if d.get('used') != used.get((rp, rc), 0):
                self.add({'C02'}, 'summary-used', '%s: %s %s used %r, '
                         'allocations sum to %d' % (
                             where, rp, rc, d.get('used'),
                             used.get((rp, rc), 0)), q)
        for rc in want_total:
            if rc in invs and rc not in res and vv < (1, 27):
                self.add({'C02'}, 'summary-classes', '%s: requested class '
                         '%s missing from summary of %s' % (where, rc, rp),
                         q)
        if vv >= (1, 17):
            ts = sorted(t for (p, t) in nat['traits'] if p == rp)
            if sorted(s.get('traits', [])) != ts:
                self.add({'C02'}, 'summary-traits', '%s: %s traits %r, '
                         'stored %r' % (where, rp, s.get('traits'), ts), q)
        if vv >= (1, 29):
            pr = nat['providers'][rp]
            if s.get('parent_provider_uuid') != pr['parent'] or \
                    s.get('root_provider_uuid') != pr['root']:
                self.add({'C02'}, 'summary-tree', '%s: %s parent/root %r/%r,'
                         ' stored %r/%r' % (
                             where, rp, s.get('parent_provider_uuid'),
                             s.get('root_provider_uuid'), pr['parent'],
                             pr['root']), q)

    # ------------------------------------------------------------------
    def check_limit(self, q):
        import random as grandom
        w = self.world
        v = q['v']
        vv = M.ver(v)
        if vv < (1, 16):
            # below 1.17 the generator only emits ``resources``: the same
            # query is valid at 1.16, where ``limit`` appears
            v = '1.16'
            vv = M.ver(v)
        params = list(q['params'])
        base = '/allocation_candidates?' + self.qs(params)
        conf = w.conf

        def get(path, randomize, seed):
            conf.set_override('randomize_allocation_candidates', randomize,
                              group='placement')
            grandom.seed(seed)
            return self.req('GET', path, None, v)
        r = get(base, False, 0)
        if r.status != 200:
            self.probe('query_rejected_%d' % r.status)
            return
        full = r.json['allocation_requests']
        Mset = [canon(a) for a in full]
        n = len(Mset)
        self.probe('full_set_size', n)
        # below 1.34 the response does not show the mappings that tell two
        # combinations with equal allocations apart: compare as multisets
        # there and do not demand visible distinctness
        distinct_visible = vv >= (1, 34)
        if distinct_visible and len(set(Mset)) != n:
            self.add({'C20', 'C02'}, 'duplicates-in-unlimited-result',
                     base, q)
        if n == 0:
            self.probe('empty_result')
            return
        r2 = get(base, False, 1)
        if [canon(a) for a in r2.json['allocation_requests']] != Mset:
            self.add({'C20'}, 'not-deterministic-without-randomisation',
                     '%s: two identical requests, different ordered lists'
                     % base, q)
        if len(self.samples) < 2:
            self.samples.append({'version': v, 'query': base,
                                 'full_set_size': n})
        limits = list(range(1, n + 2))
        if n > 12:
            limits = sorted(set([1, 2, n - 1, n, n + 1] +
                                self.rng.sample(range(1, n + 1), 6)))
        orders = set()
        for randomize in (False, True):
            for s in range(8 if randomize else 2):
                ru = get(base, randomize, s)
                got = [canon(a) for a in ru.json['allocation_requests']]
                if sorted(got) != sorted(Mset):
                    self.add({'C20'}, 'unlimited-result-not-a-permutation',
                             '%s randomize=%s seed=%d: %d entries vs %d' % (
                                 base, randomize, s, len(got), n), q)
                if randomize:
                    orders.add(tuple(got))
                elif got != Mset:
                    self.add({'C20'}, 'not-deterministic-without-'
                             'randomisation', base, q)
            for lim in limits:
                path = base + '&limit=%d' % lim
                first = None
                for s in range(8 if randomize else 2):
                    rl = get(path, randomize, s)
                    if rl.status != 200:
                        self.add({'C20'}, 'limited-request-rejected',
                                 '%s -> %d' % (path, rl.status), q)
                        break
                    ars = rl.json['allocation_requests']
                    got = [canon(a) for a in ars]
                    exp_n = min(lim, n)
                    desc = '%s randomize=%s seed=%d' % (path, randomize, s)
                    if len(got) != exp_n:
                        self.add({'C20'}, 'limited-result-size',
                                 '%s: %d entries, expected min(%d, %d)' % (
                                     desc, len(got), lim, n), q)
                    if distinct_visible and len(set(got)) != len(got):
                        self.add({'C20'}, 'limited-result-duplicates', desc,
                                 q)
                    import collections
                    extra = list((collections.Counter(got) -
                                  collections.Counter(Mset)).elements())
                    if extra:
                        self.add({'C20'}, 'limited-entry-not-in-full-set',
                                 '%s: %s' % (desc, extra[0][:300]), q)
                    sums = rl.json['provider_summaries']
                    for a in ars:
                        named = set(ar_as_dict(a))
                        for lst in (a.get('mappings') or {}).values():
                            named |= set(lst)
                        miss = named - set(sums)
                        if miss:
                            self.add({'C20'}, 'limited-summaries-incomplete',
                                     '%s: no summary for %s' % (
                                         desc, sorted(miss)), q)
                    if not randomize:
                        if first is None:
                            first = got
                        elif got != first:
                            self.add({'C20'}, 'not-deterministic-without-'
                                     'randomisation', desc, q)
                    self.probe('limited_requests')
        if n >= 3:
            self.probe('randomised_sets_with_3plus')
            if len(orders) >= 2:
                self.probe('distinct_orders_seen')
        conf.clear_override('randomize_allocation_candidates',
                            group='placement')
