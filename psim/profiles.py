"""Profiles: what one simulated run looks like, per family of property.

Every profile function takes (world, seed, params) and returns a JSON-able
result: findings (each tagged with the properties it speaks against), stats
for the evidence file and, for findings, an explicit replay description that
needs no PRNG.
"""
import copy
import random

from psim import seqrun
from psim import workload

# ---------------------------------------------------------------------------
# operation mixes (swarm: each run additionally perturbs the weights)
# ---------------------------------------------------------------------------
MIX_ALLOC = dict(workload.DEFAULT_MIX, alloc_put=22, alloc_post=14,
                 reshape=7, inv_put_all=8, inv_put_one=6, read=3,
                 rp_update=1, rc_rename=0, trait_put=1, trait_delete=0)
MIX_REJECT = dict(workload.DEFAULT_MIX, alloc_put=14, alloc_post=14,
                  reshape=8, inv_put_all=8, rpt_put=6, agg_put=5, read=2)
MIX_DELETE = dict(workload.DEFAULT_MIX, rp_delete=8, inv_delete_one=6,
                  inv_delete_all=4, rc_delete=5, trait_delete=5,
                  alloc_delete=6, rc_post=3, rc_put=3, trait_put=4,
                  reshape=6, inv_put_all=8, rc_rename=2, read=3)
MIX_TREE = {'rp_create': 10, 'rp_update': 14, 'rp_delete': 5,
            'inv_post': 1, 'alloc_put': 1, 'read': 6}
MIX_GEN = dict(workload.DEFAULT_MIX, read=14, rpt_put=7, rpt_delete=3,
               agg_put=6, inv_delete_one=3, inv_delete_all=2)
MIX_READ = dict(workload.DEFAULT_MIX, read=40)
MIX_CONSUMER = dict(workload.DEFAULT_MIX, alloc_put=24, alloc_post=16,
                    alloc_delete=8, reshape=8, read=4, rp_update=1,
                    rc_rename=0)

SEQ_VARIANTS = {
    'C01': {'mix': MIX_ALLOC, 'invalid_rate': 0.35, 'max_total': 12},
    'C04': {'mix': MIX_REJECT, 'invalid_rate': 0.55},
    'C08': {'mix': MIX_DELETE, 'invalid_rate': 0.25},
    'C09': {'mix': MIX_TREE, 'invalid_rate': 0.35, 'n_providers': 8},
    'C10': {'mix': MIX_GEN, 'invalid_rate': 0.3},
    'C11': {'mix': MIX_READ, 'invalid_rate': 0.3},
    'C12': {'mix': MIX_CONSUMER, 'invalid_rate': 0.4},
}

INCOMPLETE_IDS = ['00000000-0000-0000-0000-000000000000', 'incomplete-proj',
                  'proj-0', 'x' * 40]


def _swarm(rng, variant):
    """Per-run perturbation of the mix and knobs."""
    v = SEQ_VARIANTS[variant]
    mix = {}
    for k, w in v['mix'].items():
        if w <= 0:
            mix[k] = 0
            continue
        f = rng.choice([0.0, 0.5, 1.0, 1.0, 1.0, 2.0, 3.0])
        mix[k] = w * f
    if not any(mix.values()):
        mix = dict(v['mix'])
    # never starve provider creation
    mix['rp_create'] = max(mix.get('rp_create', 0), 3)
    gen_kwargs = {
        'mix': mix,
        'invalid_rate': max(0.0, min(0.8, v.get('invalid_rate', 0.3) *
                                     rng.choice([0.5, 1.0, 1.0, 1.5]))),
        'n_providers': v.get('n_providers', rng.choice([3, 4, 6])),
        'n_consumers': rng.choice([2, 4, 6]),
        'max_total': v.get('max_total', rng.choice([4, 8, 16])),
    }
    if rng.random() < 0.3:
        gen_kwargs['versions'] = rng.sample(workload.ALL_VERSIONS,
                                            rng.randint(4, 10))
    knobs = {
        'incomplete_consumer_project_id': rng.choice(INCOMPLETE_IDS),
        'incomplete_consumer_user_id': rng.choice(INCOMPLETE_IDS),
        'allocation_conflict_retry_count': rng.choice([1, 2, 3, 10]),
    }
    return gen_kwargs, knobs


def _digest(obj):
    import hashlib
    import json
    return hashlib.sha256(repr(_canon(obj)).encode()).hexdigest()[:20]


def _canon(o):
    if isinstance(o, dict):
        return sorted(((repr(k), _canon(v)) for k, v in o.items()))
    if isinstance(o, (list, tuple)):
        return [_canon(x) for x in o]
    if isinstance(o, (set, frozenset)):
        return sorted(repr(x) for x in o)
    return o


def seq(world, seed, params):
    """Fault-free sequential history with the model in lock-step."""
    rng = random.Random(seed)
    variant = params['variant']
    gen_kwargs, knobs = _swarm(rng, variant)
    n_ops = rng.choice(params.get('n_ops', [10, 25, 40, 60]))
    # a third of the histories are served by TWO worker processes taking
    # turns (only with default knobs: the peer has its own configuration)
    two = rng.random() < 0.34
    if two:
        knobs = {}
    run = seqrun.SeqRun(world, seed, n_ops=n_ops, gen_kwargs=gen_kwargs,
                        knobs=knobs, two_workers=two)
    findings = run.run()
    res = _seq_result(run, findings, params, knobs)
    res['probes']['two_worker_histories'] = 1 if two else 0
    res['probes']['requests_served_by_second_worker'] = \
        run.stats.get('peer_requests', 0)
    for f in res['findings']:
        f['replay']['two_workers'] = two
    return res


def _seq_result(run, findings, params, knobs):
    st = run.stats
    out = {
        'findings': [],
        'requests': st['requests'],
        'rejected': st['rejected'],
        'by_kind': st['by_kind'],
        'by_status': {str(k): v for k, v in st['by_status'].items()},
        'states': sorted(st['states']),
        'probes': dict({
            'overcommit_ledger_entries': st['overcommit_ledger_entries'],
            'reparent_subtree': st['reparent_subtree'],
            'restarts_inside_histories': st.get('restarts', 0),
        }, **st.get('by_defect', {})),
        'sim_seconds': (run.sim.now - __import__('datetime').datetime(
            2026, 1, 1)).total_seconds(),
        'sample': [list(h) for h in run.history[:12]],
        'log_digest': _digest([run.history, run.nat]),
    }
    for f in findings:
        j = f.to_json()
        j['replay'] = {
            'profile': 'seq',
            'params': params,
            'knobs': knobs,
            'ops': [h[0] for h in run.history[:f.step]],
            'expect': {'rule': f.rule, 'kind': j['kind']},
        }
        out['findings'].append(j)
    return out


def seq_replay(world, rp):
    """Re-run an explicit op list; no PRNG decides anything."""
    ops = []
    for o in rp['ops']:
        o = copy.deepcopy(o)
        o['kind'] = _kind_of(o)
        ops.append(o)
    run = seqrun.SeqRun(world, 0, knobs=rp.get('knobs'), ops=ops,
                        gen_kwargs={}, two_workers=rp.get('two_workers',
                                                          False))

    findings = run.run()
    return [f.to_json() for f in findings]


def _kind_of(op):
    if op['m'] == 'RESTART':
        return 'restart'
    m, p = op['m'], op['p'].split('?')[0]
    seg = [s for s in p.split('/') if s]
    if seg[0] == 'resource_providers':
        if len(seg) == 1:
            return 'rp_create' if m == 'POST' else 'read'
        if len(seg) == 2:
            return {'GET': 'read', 'PUT': 'rp_update',
                    'DELETE': 'rp_delete'}[m]
        if seg[2] == 'inventories':
            if len(seg) == 3:
                return {'GET': 'read', 'PUT': 'inv_put_all',
                        'POST': 'inv_post', 'DELETE': 'inv_delete_all'}[m]
            return {'GET': 'read', 'PUT': 'inv_put_one',
                    'DELETE': 'inv_delete_one'}[m]
        if seg[2] == 'aggregates':
            return 'agg_put' if m == 'PUT' else 'read'
        if seg[2] == 'traits':
            return {'GET': 'read', 'PUT': 'rpt_put',
                    'DELETE': 'rpt_delete'}[m]
        return 'read'
    if seg[0] == 'traits':
        if len(seg) == 1:
            return 'read'
        return {'GET': 'read', 'PUT': 'trait_put',
                'DELETE': 'trait_delete'}[m]
    if seg[0] == 'resource_classes':
        if len(seg) == 1:
            return 'rc_post' if m == 'POST' else 'read'
        if m == 'PUT':
            return 'rc_put' if op.get('b') is None else 'rc_rename'
        return {'GET': 'read', 'DELETE': 'rc_delete'}[m]
    if seg[0] == 'allocations':
        if len(seg) == 1:
            return 'alloc_post'
        return {'GET': 'read', 'PUT': 'alloc_put',
                'DELETE': 'alloc_delete'}[m]
    if seg[0] == 'reshaper':
        return 'reshape'
    return 'read'


PROFILES = {'seq': seq}
REPLAYS = {'seq': seq_replay}


def scale(world, seed, params):
    from psim import scale as S
    return S.scale_history(world, seed, params)


PROFILES['scale'] = scale


# ---------------------------------------------------------------------------
# concurrent batches
# ---------------------------------------------------------------------------
def conc(world, seed, params):
    from psim import conc as C
    rng = random.Random(seed)
    knobs = {'allocation_conflict_retry_count': rng.choice([1, 2, 3, 10])}
    run = C.ConcRun(world, seed, params['focus'], knobs=knobs,
                    n_batch=params.get('n_batch'),
                    n_schedules=params.get('n_schedules', 1),
                    enumerate_targeted=params.get('enumerate', False),
                    enumerate_pairs=(params.get('enumerate2', 0) > 0 and
                                     rng.random() < params['enumerate2']))
    findings = run.run()
    out = {'findings': [], 'requests': run.stats['requests'],
           'probes': run.stats['probes'], 'signatures': [], 'states': []}
    if getattr(run, 'batch', None) is None:
        out['probes'] = dict(out['probes'], no_batch=1)
        return out
    kinds = [op['kind'] for op in run.batch]
    import hashlib
    for e in run.schedule_log:
        if e['switches'] >= len(run.batch):
            # at least one context switch separated two transactions of one
            # request: a genuinely interleaved execution
            out['signatures'].append(hashlib.sha256((
                '+'.join(kinds) + e['sig']).encode()).hexdigest()[:16])
    out['probes'] = dict(out['probes'],
                         schedules_run=len(run.schedule_log),
                         distinct_schedules_in_batch=sum(
                             1 for e in run.schedule_log if e['new']))
    out['by_kind'] = {}
    for k in kinds:
        out['by_kind'][k] = out['by_kind'].get(k, 0) + 1
    out['by_status'] = {}
    for e in run.schedule_log:
        for s in e['statuses']:
            out['by_status'][str(s)] = out['by_status'].get(str(s), 0) + 1
    out['log_digest'] = _digest([
        [(e['schedule'], e['statuses']) for e in run.schedule_log],
        run.setup_ops, [workload.op_brief(op) for op in run.batch],
        run.sim.schedule, run.sim.sig, run.statuses,
        [(e['task'], e['changed'], e['state']) for e in run.sim.commit_log],
        [(f['rule'], f['kind']) for f in findings]])
    # prefer written-out samples in which something was at stake
    placed = sum(1 for op in run.batch
                 for x in seqrun.placed_amounts(op))
    out['sample_score'] = (
        (2 if any(s_ < 400 for s_ in run.statuses) and
         any(s_ >= 400 for s_ in run.statuses) else 0) +
        (1 if run.switches >= len(run.batch) else 0) +
        (1 if placed else 0) + (1 if len(set(kinds)) > 1 else 0))
    out['sample'] = {
        'setup_requests': len(run.setup_ops),
        'batch': [workload.op_brief(op) for op in run.batch],
        'strategy': list(run.strategy) if run.strategy else None,
        'schedule': run.sim.schedule,
        'statuses': run.statuses,
    }
    for f in findings:
        f = dict(f)
        # signature: rule + diagnosis class when there is one (narrow and
        # independent of the request kinds), else rule + request kinds
        f['sig'] = '%s/%s' % (f['rule'], f.get('sig_extra') or f['kind'])
        f['replay'] = {
            'profile': 'conc',
            'focus': params['focus'],
            'knobs': knobs,
            'setup': run.setup_ops,
            'batch': [dict(workload.op_brief(op), kind=op['kind'])
                      for op in run.batch],
            'schedule': f.pop('schedule', None) or run.sim.schedule,
            'expect': {'rule': f['rule'], 'kind': f['kind']},
        }
        out['findings'].append(f)
    return out


def conc_replay(world, rp):
    from psim import conc as C
    setup = []
    for o in rp['setup']:
        o = copy.deepcopy(o)
        o['kind'] = _kind_of(o)
        setup.append(o)
    batch = []
    for o in rp['batch']:
        o = copy.deepcopy(o)
        o.setdefault('kind', _kind_of(o))
        batch.append(o)
    run = C.ConcRun(world, 0, rp.get('focus', 'mixed'),
                    knobs=rp.get('knobs'), setup_ops=setup, batch=batch,
                    schedule=rp['schedule'])
    return run.run()


PROFILES['conc'] = conc
REPLAYS['conc'] = conc_replay


# ---------------------------------------------------------------------------
# statement faults (C17) and crash points (C18)
# ---------------------------------------------------------------------------
def _fault_like(world, seed, params, mode):
    from psim import fault as F
    rng = random.Random(seed)
    knobs = {'allocation_conflict_retry_count': rng.choice([1, 2, 3, 10])}
    run = F.FaultRun(world, seed, mode, knobs=knobs,
                     max_points=params.get('max_points'),
                     pairs=params.get('pairs', 0),
                     variant=params.get('variant'))
    findings = run.run()
    out = {'findings': [], 'requests': run.stats['requests'],
           'probes': dict(run.stats['probes']), 'faults': run.stats['faults'],
           'signatures': [], 'states': []}
    if getattr(run, 'request', None) is None:
        out['probes']['no_request'] = 1
        return out
    R = run.request
    out['by_kind'] = {R['kind']: 1}
    out['points'] = run.stats['points']
    out['outcomes'] = run.stats['outcomes']
    for k, v in run.stats['outcomes'].items():
        out['probes']['outcome_' + str(k)] = v
    out['probes']['fault_points'] = run.stats['points']
    out['probes']['ordinals'] = len(run.ordinals)
    # distinct non-trivial: (request kind, statement shape at the fault
    # point, fault kind, outcome) -- recorded per run as a signature set
    shape = '|'.join('%s%s' % (o[2][:3], o[3]) for o in run.ordinals)
    entry = '%s:%s' % (R['kind'], __import__('hashlib').sha256(
        (shape + str(run.twin_status)).encode()).hexdigest()[:12])
    # one signature per fault point that actually fired, keyed by the corpus
    # entry's (request kind, statement shape, twin status)
    out['signatures'] = ['%s@%s' % (entry, fp)
                         for fp in run.stats.get('fired_points', [])]
    out['probes']['corpus_entries'] = 1
    out['entry_signature'] = entry
    out['log_digest'] = _digest([
        run.setup_ops, workload.op_brief(R), run.twin_status,
        run.ordinals, run.stats['outcomes'], run.stats['faults'],
        [(f['rule'], f['kind'], f.get('sig_extra')) for f in findings]])
    out['sample'] = {
        'setup_requests': len(run.setup_ops),
        'request': workload.op_brief(R),
        'twin_status': run.twin_status,
        'statements_and_commits': ['%s %s %s' % (o[1], o[2], o[3])
                                   for o in run.ordinals],
        'must_retry_ordinals': sorted(run.win_alloc | run.win_dup),
        'outcomes': run.stats['outcomes'],
    }
    for f in findings:
        f = dict(f)
        f['sig'] = '%s/%s' % (f['rule'], f.get('sig_extra') or f['kind'])
        f['replay'] = {
            'profile': mode,
            'knobs': knobs,
            'setup': run.setup_ops,
            'request': dict(workload.op_brief(R), kind=R['kind']),
            'faults': f.pop('plan'),
            'expect': {'rule': f['rule'], 'kind': f['kind']},
        }
        out['findings'].append(f)
    return out


def fault(world, seed, params):
    return _fault_like(world, seed, params, 'fault')


def crash(world, seed, params):
    return _fault_like(world, seed, params, 'crash')


def _fault_replay(world, rp, mode):
    from psim import fault as F
    setup = []
    for o in rp['setup']:
        o = copy.deepcopy(o)
        o['kind'] = _kind_of(o)
        setup.append(o)
    R = copy.deepcopy(rp['request'])
    R.setdefault('kind', _kind_of(R))
    run = F.FaultRun(world, 0, mode, knobs=rp.get('knobs'), setup_ops=setup,
                     request=R, plan=rp['faults'])
    return run.run()


PROFILES['fault'] = fault
PROFILES['crash'] = crash
REPLAYS['fault'] = lambda w, rp: _fault_replay(w, rp, 'fault')
REPLAYS['crash'] = lambda w, rp: _fault_replay(w, rp, 'crash')


# ---------------------------------------------------------------------------
# start-up sync under faults (C17) / name histories with restarts (C19)
# ---------------------------------------------------------------------------
def sync_fault(world, seed, params):
    from psim import sync as S
    return S.sync_fault(world, seed, params)


def names(world, seed, params):
    from psim import sync as S
    return S.names_history(world, seed, params)


PROFILES['sync_fault'] = sync_fault
PROFILES['names'] = names
REPLAYS['sync_fault'] = lambda w, rp: __import__(
    'psim.sync', fromlist=['x']).sync_fault_replay(w, rp)
REPLAYS['names'] = lambda w, rp: __import__(
    'psim.sync', fromlist=['x']).names_replay(w, rp)


# ---------------------------------------------------------------------------
# allocation candidates: claim (C02) and limit/randomisation (C20)
# ---------------------------------------------------------------------------
def _cand(world, seed, params, mode):
    from psim import cand as K
    run = K.CandRun(world, seed, mode, big=params.get('big'))
    findings = run.run()
    out = {'findings': [], 'requests': run.stats['requests'],
           'probes': dict(run.stats['probes']), 'signatures': [],
           'states': [], 'by_kind': {'candidate_queries':
                                     run.stats['queries']}}
    if run.stats['queries'] and getattr(run, 'nat', None) is not None:
        out['states'] = [dump_digest(run.nat)]
    out['log_digest'] = _digest([run.ops, run.stats['probes'],
                                 run.samples,
                                 [(f['rule'], f['detail']) for f in findings]])
    out['sample'] = run.samples
    seen = set()
    for f in findings:
        f = dict(f)
        q = f.pop('query')
        f['sig'] = '%s/%s' % (f['rule'], f['kind'])
        if f['sig'] in seen:
            continue
        seen.add(f['sig'])
        f['replay'] = {
            'profile': 'cand_' + mode,
            'ops': run.ops,
            'query': q,
            'expect': {'rule': f['rule'], 'kind': f['kind']},
        }
        out['findings'].append(f)
    return out


def dump_digest(nat):
    from psim import dump
    return dump.digest(dump.natural_core(nat, generations=False))


def cand_claim(world, seed, params):
    return _cand(world, seed, params, 'claim')


def cand_limit(world, seed, params):
    return _cand(world, seed, params, 'limit')


def _cand_replay(world, rp, mode):
    from psim import cand as K
    run = K.CandRun(world, 0, mode, ops=rp['ops'], query=rp['query'])
    return run.run()


PROFILES['cand_claim'] = cand_claim
PROFILES['cand_limit'] = cand_limit
REPLAYS['cand_claim'] = lambda w, rp: _cand_replay(w, rp, 'claim')
REPLAYS['cand_limit'] = lambda w, rp: _cand_replay(w, rp, 'limit')
