"""Histories whose single requests are LARGE, or whose counters run HIGH.

The ordinary generator keeps the pools small (6 providers, 6 consumers, a
handful of names) so that histories collide; this profile holds the other
end: the same lock-step oracle (SeqRun.step: reference model, dump equality,
invariants, views) over seeded histories in which one request touches more
than a hundred rows of one kind, one provider collects several hundred
writes, or one tree holds more than a hundred providers.  Size thresholds are
drawn around the places where code changes behaviour with size: slices of
100 and 1000 in "IN (...)" lists, CPython's shared small integers (-5..256),
SQLite's and MySQL's bound-parameter limits.

Everything is a pure function of the seed; a finding replays as an explicit
op list through the 'seq' replay.
"""
import random

from psim import model as M
from psim import profiles
from psim import seqrun

SIZES = [101, 105, 130, 200, 257, 300]


def _uuid(prefix, i):
    return '%s-0000-4000-8000-%012d' % (prefix, i)


def P(i):
    return _uuid('aaaa%04d' % (i // 100000), i)


def C(i):
    return _uuid('cccc%04d' % (i // 100000), i)


def A(i):
    return _uuid('dddd%04d' % (i // 100000), i)


class Script(object):
    def __init__(self, run, rng):
        self.run = run
        self.rng = rng
        self.m = run.model

    def do(self, m, p, v, b=None):
        op = {'m': m, 'p': p, 'v': v}
        if b is not None:
            op['b'] = b
        op['kind'] = profiles._kind_of(op)
        self.run.step(op)
        return not self.run.stop

    def gen(self, u):
        return self.m.providers[u]['generation']

    def cgen(self, c):
        return self.m.consumers[c]['generation'] \
            if c in self.m.consumers else None

    def provider(self, i, parent=None, v='1.39'):
        b = {'name': 'big-%d' % i, 'uuid': P(i)}
        if parent is not None:
            b['parent_provider_uuid'] = parent
        return self.do('POST', '/resource_providers', v, b)

    def inventory(self, u, total, rcs=('VCPU',), **kw):
        inv = {}
        for rc in rcs:
            inv[rc] = dict({'total': total, 'max_unit': total}, **kw)
        return self.do('PUT', '/resource_providers/%s/inventories' % u,
                       '1.39', {'resource_provider_generation': self.gen(u),
                                'inventories': inv})


# -- scenarios ------------------------------------------------------------------

def many_consumers(s, n):
    """One POST /allocations creating n consumers, one emptying them all."""
    rng = s.rng
    if not (s.provider(1) and s.provider(2) and
            s.inventory(P(1), 10 * n) and
            s.inventory(P(2), 10 * n, rcs=('VCPU', 'MEMORY_MB'))):
        return
    v = rng.choice(['1.28', '1.34', '1.38', '1.39'])

    def body(c, amount, empty=False):
        b = {'project_id': 'proj-0', 'user_id': 'user-0',
             'consumer_generation': s.cgen(c),
             'allocations': {} if empty else {
                 P(1 + c_index[c] % 2): {'resources': {'VCPU': amount}}}}
        if M.ver(v) >= (1, 38):
            b['consumer_type'] = 'INSTANCE'
        return b
    cons = [C(i) for i in range(n)]
    c_index = {c: i for i, c in enumerate(cons)}
    if not s.do('POST', '/allocations', v, {c: body(c, 1) for c in cons}):
        return
    # a second large write: everybody changes
    if not s.do('POST', '/allocations', v,
                {c: body(c, 2) for c in cons}):
        return
    # one of them is stale (not in the last slice of any batching): refused
    # as a whole
    stale = {c: body(c, 3) for c in cons}
    victim = cons[rng.randrange(0, min(n, 100))]
    stale[victim]['consumer_generation'] = s.cgen(victim) + 1
    if not s.do('POST', '/allocations', v, stale):
        return
    # a subset is emptied, then everybody
    some = rng.sample(cons, rng.choice([3, 101 if n > 101 else 5]))
    if not s.do('POST', '/allocations', v,
                {c: body(c, 0, empty=True) for c in some}):
        return
    rest = [c for c in cons if c in s.m.consumers]
    if not s.do('POST', '/allocations', v,
                {c: body(c, 0, empty=True) for c in rest}):
        return
    # they are gone: every one can be created again with generation null
    again = rng.sample(cons, 4) + [cons[0], cons[-1]]
    for c in again:
        if not s.do('PUT', '/allocations/' + c, v, body(c, 1)):
            return


def many_traits(s, n):
    """A provider with n traits: replace, shrink, clear."""
    rng = s.rng
    std = sorted(M.STD_TRAITS)
    if not s.provider(1):
        return
    u = P(1)
    traits = rng.sample(std, min(n, len(std)))
    v = rng.choice(['1.6', '1.20', '1.39'])

    def put(ts):
        return s.do('PUT', '/resource_providers/%s/traits' % u, v,
                    {'resource_provider_generation': s.gen(u),
                     'traits': list(ts)})
    if not put(traits):
        return
    if not s.do('GET', '/resource_providers?required=%s' % traits[0],
                '1.39'):
        return
    keep = rng.sample(traits, rng.choice([1, 2, 50]))
    if not put(keep):
        return
    for t in rng.sample([t for t in traits if t not in keep], 3):
        if not s.do('GET', '/resource_providers?required=%s' % t, '1.39'):
            return
    if not put(traits):
        return
    if not s.do('DELETE', '/resource_providers/%s/traits' % u, v):
        return
    for t in rng.sample(traits, 3):
        if not s.do('GET', '/resource_providers?required=%s' % t, '1.39'):
            return


def many_aggregates(s, n):
    rng = s.rng
    if not s.provider(1):
        return
    u = P(1)
    v = rng.choice(['1.19', '1.39'])
    aggs = [A(i) for i in range(n)]

    def put(ags):
        return s.do('PUT', '/resource_providers/%s/aggregates' % u, v,
                    {'resource_provider_generation': s.gen(u),
                     'aggregates': list(ags)})
    if not put(aggs):
        return
    if not s.do('GET', '/resource_providers?member_of=%s' % aggs[-1],
                '1.39'):
        return
    if not put(rng.sample(aggs, 2)):
        return
    if not s.do('GET', '/resource_providers?member_of=in:%s' % ','.join(
            rng.sample(aggs, 3)), '1.39'):
        return
    if not put(aggs):
        return
    put([])


def deep_generation(s, n):
    """n successful writes on ONE provider, then every kind of write with the
    right and with a stale generation."""
    rng = s.rng
    n = max(n, rng.choice([258, 262, 300]))     # past CPython's small ints
    if not s.provider(1):
        return
    u = P(1)
    for i in range(n):
        k = i % 3
        if k == 0:
            ok = s.do('PUT', '/resource_providers/%s/traits' % u, '1.39',
                      {'resource_provider_generation': s.gen(u),
                       'traits': ['HW_CPU_X86_AVX'] if i % 2 else []})
        elif k == 1:
            ok = s.do('PUT', '/resource_providers/%s/aggregates' % u,
                      '1.39',
                      {'resource_provider_generation': s.gen(u),
                       'aggregates': [A(i % 2)]})
        else:
            ok = s.inventory(u, 4 + i % 5)
        if not ok:
            return
    for stale in (0, 1, -1, 0):
        g = s.gen(u) + stale
        for op in rng.sample([
            ('PUT', '/resource_providers/%s/traits' % u,
             {'resource_provider_generation': g, 'traits': []}),
            ('PUT', '/resource_providers/%s/aggregates' % u,
             {'resource_provider_generation': g, 'aggregates': []}),
            ('PUT', '/resource_providers/%s/inventories' % u,
             {'resource_provider_generation': g,
              'inventories': {'VCPU': {'total': 9}}}),
            ('PUT', '/resource_providers/%s/inventories/VCPU' % u,
             {'resource_provider_generation': g, 'total': 11}),
            ('POST', '/reshaper',
             {'inventories': {u: {'resource_provider_generation': g,
                                  'inventories': {'VCPU': {'total': 12}}}},
              'allocations': {}}),
        ], 3):
            body = dict(op[2])
            if op[0] != 'POST':
                body['resource_provider_generation'] = s.gen(u) + stale
            else:
                body['inventories'][u]['resource_provider_generation'] = \
                    s.gen(u) + stale
            if not s.do(op[0], op[1], '1.39', body):
                return
    # the consumer side: many generations of one consumer
    c = C(1)
    for i in range(20):
        b = {'project_id': 'proj-0', 'user_id': 'user-0',
             'consumer_generation': s.cgen(c),
             'allocations': {u: {'resources': {'VCPU': 1 + i % 2}}}}
        if not s.do('PUT', '/allocations/' + c, '1.28', b):
            return


def deep_consumer_generation(s, n):
    rng = s.rng
    if not (s.provider(1) and s.inventory(P(1), 50)):
        return
    c = C(1)
    v = rng.choice(['1.28', '1.36', '1.39'])
    n = max(n, rng.choice([258, 262, 300]))
    for i in range(n):
        b = {'project_id': 'proj-0', 'user_id': 'user-0',
             'consumer_generation': s.cgen(c),
             'allocations': {P(1): {'resources': {'VCPU': 1 + i % 3}}}}
        if M.ver(v) >= (1, 38):
            b['consumer_type'] = 'INSTANCE'
        if not s.do('PUT', '/allocations/' + c, v, b):
            return
    for stale in (1, -1, 0):
        b = {'project_id': 'proj-0', 'user_id': 'user-0',
             'consumer_generation': s.cgen(c) + stale,
             'allocations': {P(1): {'resources': {'VCPU': 4}}}}
        if M.ver(v) >= (1, 38):
            b['consumer_type'] = 'INSTANCE'
        if not s.do('PUT', '/allocations/' + c, v, b):
            return
        if not s.do('POST', '/allocations', v, {c: dict(
                b, consumer_generation=s.cgen(c) + stale)}):
            return


def wide_tree(s, n):
    """A tree of more than n providers is moved under another root and
    back out."""
    rng = s.rng
    if not (s.provider(1) and s.provider(2) and s.provider(3, parent=P(2))):
        return
    shape = rng.choice(['flat', 'chain', 'mixed'])
    members = [P(1)]
    for i in range(n):
        if shape == 'flat':
            parent = P(1)
        elif shape == 'chain':
            parent = members[-1] if i < 40 else members[rng.randrange(
                len(members))]
        else:
            parent = members[rng.randrange(len(members))]
        if not s.provider(10 + i, parent=parent,
                          v=rng.choice(['1.14', '1.39'])):
            return
        members.append(P(10 + i))

    def move(u, parent, v='1.37'):
        return s.do('PUT', '/resource_providers/' + u, v,
                    {'name': s.m.providers[u]['name'],
                     'parent_provider_uuid': parent})
    if not move(P(1), P(3)):
        return
    if not s.do('GET', '/resource_providers?in_tree=%s' % members[-1],
                '1.39'):
        return
    # a loop through the far end is refused
    if not move(P(2), members[-1]):
        return
    if not move(P(1), None):
        return
    if not s.do('GET', '/resource_providers?in_tree=%s' % P(1), '1.39'):
        return
    # a big subtree below the top
    sub = members[1]
    if not move(sub, P(2)):
        return
    move(P(1), P(3), v='1.39')


def many_classes(s, n):
    """One provider with inventory of n classes, one consumer using all."""
    rng = s.rng
    n = min(n, 130)
    names = ['CUSTOM_BIG_%03d' % i for i in range(n)]
    for nm in names:
        if not s.do('PUT', '/resource_classes/' + nm, '1.39'):
            return
    if not s.provider(1):
        return
    u = P(1)
    if not s.inventory(u, 8, rcs=names):
        return
    c = C(1)
    b = {'project_id': 'proj-0', 'user_id': 'user-0',
         'consumer_generation': None,
         'allocations': {u: {'resources': {nm: 2 for nm in names}}}}
    if not s.do('PUT', '/allocations/' + c, '1.28', b):
        return
    # dropping a class in use (the last of them) is refused, whole request
    keep = names[:-1]
    if not s.do('PUT', '/resource_providers/%s/inventories' % u, '1.39',
                {'resource_provider_generation': s.gen(u),
                 'inventories': {nm: {'total': 8} for nm in keep}}):
        return
    if not s.do('DELETE', '/resource_classes/' + names[-1], '1.39'):
        return
    b2 = dict(b, consumer_generation=s.cgen(c), allocations={})
    if not s.do('PUT', '/allocations/' + c, '1.28', b2):
        return
    if not s.do('PUT', '/resource_providers/%s/inventories' % u, '1.39',
                {'resource_provider_generation': s.gen(u),
                 'inventories': {nm: {'total': 8}
                                 for nm in rng.sample(names, 2)}}):
        return
    for nm in rng.sample(names, 3) + [names[-1]]:
        if not s.do('DELETE', '/resource_classes/' + nm, '1.39'):
            return


def many_providers_one_consumer(s, n):
    """One consumer holding allocations on n providers; reshaper moving them."""
    rng = s.rng
    n = min(n, 130)
    for i in range(n):
        if not (s.provider(i) and s.inventory(P(i), 4)):
            return
    c = C(1)
    b = {'project_id': 'proj-0', 'user_id': 'user-0',
         'consumer_generation': None,
         'allocations': {P(i): {'resources': {'VCPU': 1}}
                         for i in range(n)}}
    if not s.do('PUT', '/allocations/' + c, '1.28', b):
        return
    # one provider too full: all refused
    c2 = C(2)
    b2 = {'project_id': 'proj-0', 'user_id': 'user-0',
          'consumer_generation': None,
          'allocations': {P(i): {'resources': {
              'VCPU': 4 if i == rng.randrange(n) else 3}}
              for i in range(n)}}
    if not s.do('PUT', '/allocations/' + c2, '1.28', b2):
        return
    if not s.do('GET', '/usages?project_id=proj-0', '1.39'):
        return
    b3 = dict(b, consumer_generation=s.cgen(c), allocations={})
    s.do('PUT', '/allocations/' + c, '1.28', b3)


SCENARIOS = {
    'many-consumers': many_consumers,
    'many-traits': many_traits,
    'many-aggregates': many_aggregates,
    'deep-generation': deep_generation,
    'deep-consumer-generation': deep_consumer_generation,
    'wide-tree': wide_tree,
    'many-classes': many_classes,
    'many-providers-one-consumer': many_providers_one_consumer,
}


def scale_history(world, seed, params):
    rng = random.Random(seed)
    only = params.get('scenarios')
    name = rng.choice(sorted(only or SCENARIOS))
    n = rng.choice(params.get('sizes', SIZES))
    two = rng.random() < 0.25
    run = seqrun.SeqRun(world, seed, n_ops=0, gen_kwargs={}, knobs={},
                        two_workers=two)
    run.setup()
    try:
        s = Script(run, rng)
        SCENARIOS[name](s, n)
        if not run.stop:
            run.cross_views()
        findings = run.findings
    finally:
        run.teardown()
    res = profiles._seq_result(run, findings, dict(params, variant='scale'),
                               {})
    for f in res['findings']:
        f['replay']['two_workers'] = two
    res['probes']['scale_%s' % name] = 1
    res['probes']['scale_size_%d' % n] = 1
    return res
