"""python -m psim.selftest smoke|determinism|sensitivity"""
import os
import sys

HERE = os.path.dirname(os.path.dirname(os.path.abspath(__file__)))
if HERE not in sys.path:
    sys.path.insert(0, HERE)


def smoke():
    from psim import seams
    from psim import seqrun
    from psim.world import World
    w = World()
    seams.install(w)
    n = 0
    for seed in (1, 2, 3):
        r = seqrun.SeqRun(w, seed, n_ops=15)
        r.run()
        n += r.stats['requests']
    print('smoke ok: placement imported from %s, %d requests served' % (
        os.path.dirname(sys.modules['placement'].__file__), n))
    return 0


def main():
    what = sys.argv[1] if len(sys.argv) > 1 else 'smoke'
    if what == 'smoke':
        return smoke()
    from psim import selftests
    return selftests.main(sys.argv[1:])


if __name__ == '__main__':
    sys.exit(main())
