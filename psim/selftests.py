"""Determinism and sensitivity self-tests.

determinism: every profile, N run seeds; each seed is executed in two fresh
interpreters (PYTHONHASHSEED=0) - in opposite ORDER, so that state leaking
from one run into the next inside a worker would show - and the digests of
the complete event logs must be identical; a third interpreter under
PYTHONHASHSEED=1 must give identical verdicts.

sensitivity: every in-memory mutant of psim/mutants.py is run against the
check(s) expected to notice it (exit 1 + replay reproduces); negative
controls must exit 0.
"""
import json
import os
import subprocess
import sys
import time

HERE = os.path.dirname(os.path.dirname(os.path.abspath(__file__)))

PROFILE_PARAMS = [
    ('seq', {'variant': 'C11'}),
    ('seq', {'variant': 'C01'}),
    ('conc', {'focus': 'provider'}),
    ('conc', {'focus': 'consumer'}),
    ('conc', {'focus': 'mixed'}),
    ('conc', {'focus': 'move'}),
    ('conc', {'focus': 'reshape'}),
    ('scale', {'scenarios': ['many-traits', 'many-aggregates',
                             'many-classes'], 'sizes': [101]}),
    ('crash', {'max_points': 12, 'variant': 'big'}),
    ('fault', {'max_points': 25}),
    ('crash', {'max_points': 25}),
    ('sync_fault', {}),
    ('names', {}),
    ('cand_claim', {}),
    ('cand_limit', {}),
]


def _digest_worker(argv):
    profile, params, seeds = argv[0], json.loads(argv[1]), json.loads(argv[2])
    sys.path.insert(0, HERE)
    from psim import plans
    from psim import seams
    from psim.world import World
    w = World()
    seams.install(w)
    fn = plans.profile_fn(profile)
    out = {}
    for s in seeds:
        r = fn(w, s, params)
        out[str(s)] = {
            'digest': r.get('log_digest') or repr(sorted(
                (k, repr(v)) for k, v in r.items() if k != 'wall')),
            'verdict': sorted(set((f['rule'], f.get('kind'))
                                  for f in r['findings'])),
        }
    print('DIGESTS ' + json.dumps(out, sort_keys=True))
    return 0


def _spawn(profile, params, seeds, hashseed):
    env = dict(os.environ)
    env['PYTHONHASHSEED'] = str(hashseed)
    return subprocess.Popen(
        [sys.executable, '-m', 'psim.selftest', '_digest', profile,
         json.dumps(params), json.dumps(seeds)],
        cwd=HERE, env=env, stdout=subprocess.PIPE, stderr=subprocess.PIPE)


def _collect(p):
    out, err = p.communicate(timeout=1800)
    for line in out.decode().splitlines():
        if line.startswith('DIGESTS '):
            return json.loads(line[8:])
    raise RuntimeError('digest worker failed: %s' % err.decode()[-2000:])


def determinism(n=24):
    t0 = time.time()
    bad = 0
    total = 0
    for profile, params in PROFILE_PARAMS:
        seeds = [1000 + 7 * i for i in range(n)]
        pa = _spawn(profile, params, seeds, 0)
        pb = _spawn(profile, params, list(reversed(seeds)), 0)
        pc = _spawn(profile, params, seeds, 1)
        a, b, c = _collect(pa), _collect(pb), _collect(pc)
        for s in map(str, seeds):
            total += 1
            if a[s]['digest'] != b[s]['digest']:
                bad += 1
                print('NONDETERMINISTIC %s %s seed %s: %s vs %s' % (
                    profile, params, s, a[s]['digest'], b[s]['digest']))
            if a[s]['verdict'] != c[s]['verdict']:
                bad += 1
                print('HASH-SEED-DEPENDENT VERDICT %s %s seed %s: %s vs %s' %
                      (profile, params, s, a[s]['verdict'], c[s]['verdict']))
        same_c = sum(1 for s in map(str, seeds)
                     if a[s]['digest'] == c[s]['digest'])
        print('%-10s %-24s %d seeds x (2 interpreters, opposite order) '
              'identical; under PYTHONHASHSEED=1 %d/%d logs identical, all '
              'verdicts equal' % (profile, json.dumps(params), len(seeds),
                                  same_c, len(seeds)))
    print('determinism: %d comparisons, %d mismatches, %.0fs' % (
        total, bad, time.time() - t0))
    return 1 if bad else 0


def sensitivity(only=None, scale='0.5'):
    sys.path.insert(0, HERE)
    from psim import mutants
    results = {}
    rc = 0
    for name in sorted(mutants.MUTANTS):
        if only and name not in only:
            continue
        expected = mutants.EXPECTED.get(name, [])
        checks = expected or ['C01', 'C11']
        for prop in checks:
            env = dict(os.environ)
            env['PSIM_MUTANT'] = name
            env['PSIM_SCALE'] = scale
            env['PYTHONHASHSEED'] = '0'
            t0 = time.time()
            p = subprocess.run(
                [sys.executable, '-m', 'psim.check', prop, '--tier', 'quick'],
                cwd=HERE, env=env, stdout=subprocess.PIPE,
                stderr=subprocess.STDOUT)
            out = p.stdout.decode()
            caught = p.returncode == 1 and 'VIOLATION property=%s' % prop \
                in out
            ok = caught if expected else p.returncode == 0
            results[(name, prop)] = ok
            if not ok:
                rc = 1
            print('%-34s %-4s %s (exit %d, %.0fs)' % (
                name, prop, ('caught' if caught else 'silent') +
                ('' if ok else '  <-- UNEXPECTED'), p.returncode,
                time.time() - t0))
            sys.stdout.flush()
    # the evidence files were rewritten by mutant runs: regenerate is the
    # caller's job (run the real checks again)
    return rc


def main(argv):
    if argv[0] == '_digest':
        return _digest_worker(argv[1:])
    if argv[0] == 'determinism':
        return determinism(int(argv[1]) if len(argv) > 1 else 24)
    if argv[0] == 'sensitivity':
        return sensitivity(argv[1:] or None)
    print('usage: python -m psim.selftest smoke|determinism [n]|'
          'sensitivity [mutant...]')
    return 2
