"""Seams, scheduler and fault injector.

Every source of nondeterminism the listed properties depend on goes through
this module:

* which request runs its next database transaction (baton-passing scheduler,
  pre-emption only before a top-level BEGIN: transaction granularity);
* what the next SQL statement / commit does (fault injector at the DBAPI
  seam, underneath SQLAlchemy and oslo.db);
* process death (the request thread is frozen for ever, its connections are
  rolled back and closed);
* the clock, ``time.sleep`` of the retry decorator, ``random`` and ``uuid4``.

No hook in /repo is needed: SQLAlchemy engine events, the replaceable
``dialect.do_commit/do_rollback/is_disconnect`` and oslo.db's public
exception-filter registry are the seams.
"""
import datetime
import random as _random
import re
import sqlite3
import threading
import uuid as _uuid

HANG_TIMEOUT = 120.0


class HarnessError(Exception):
    """The simulator itself misbehaved (never reported as a VIOLATION)."""


# --------------------------------------------------------------------------
# SQL classification (used for tracing and fault placement only)
# --------------------------------------------------------------------------
_RE_INS = re.compile(r'^\s*INSERT\s+INTO\s+"?(\w+)"?', re.I)
_RE_UPD = re.compile(r'^\s*UPDATE\s+"?(\w+)"?', re.I)
_RE_DEL = re.compile(r'^\s*DELETE\s+FROM\s+"?(\w+)"?', re.I)
_RE_SEL = re.compile(r'\bFROM\s+\(?\s*"?(\w+)"?', re.I)


def classify(statement):
    s = statement.lstrip()
    head = s[:6].upper()
    if head.startswith('BEGIN'):
        return ('BEGIN', '')
    if head == 'INSERT':
        m = _RE_INS.match(s)
        return ('INSERT', m.group(1) if m else '?')
    if head == 'UPDATE':
        m = _RE_UPD.match(s)
        return ('UPDATE', m.group(1) if m else '?')
    if head == 'DELETE':
        m = _RE_DEL.match(s)
        return ('DELETE', m.group(1) if m else '?')
    if head == 'SELECT':
        m = _RE_SEL.search(s)
        return ('SELECT', m.group(1) if m else '?')
    return (head.split()[0] if head.split() else '?', '?')


# tables on which a duplicate-key race is plausible for an INSERT, with the
# unique column reported in the error.  A "winner" row (the very same INSERT,
# executed by a side connection once the victim's transaction has ended)
# makes the fault a faithful emulation of a lost creation race.
DUPKEY_TABLES = {
    'projects': 'external_id',
    'users': 'external_id',
    'consumer_types': 'name',
    'placement_aggregates': 'uuid',
    'traits': 'name',
    'resource_classes': 'name',
    # association / data rows a racing request may have inserted first
    'resource_provider_aggregates': 'resource_provider_id, '
                                    'resource_provider_aggregates.'
                                    'aggregate_id',
    'resource_provider_traits': 'trait_id, resource_provider_traits.'
                                'resource_provider_id',
    'inventories': 'resource_provider_id, inventories.resource_class_id',
    # not resource_providers: a provider is created by an INSERT plus an
    # UPDATE of its root pointer, so "the same INSERT by the winner" would
    # not be a faithful winner row
}

# a racing request that associates aggregates or traits overlaps with the
# victim in ONE row, it does not insert the victim's whole batch (unlike a
# second start-up sync, which inserts the same complete set)
SINGLE_ROW_WINNER = ('resource_provider_aggregates',
                     'resource_provider_traits')


def _winner_of(table, statement, parameters, many):
    if table not in SINGLE_ROW_WINNER:
        return (statement, parameters, many)
    if many:
        return (statement, parameters[0], False)
    m = re.match(r'(?is)^(\s*INSERT\s+INTO\s+.*?VALUES\s*)(\([^)]*\))'
                 r'(\s*,\s*\([^)]*\))+\s*$', statement)
    if m:
        n = m.group(2).count('?')
        if n and isinstance(parameters, (list, tuple)):
            return (m.group(1) + m.group(2), tuple(parameters[:n]), False)
    return (statement, parameters, many)


STMT_FAULTS = ('deadlock-keep', 'deadlock-rollback', 'dupkey', 'connlost',
               'dberror', 'crash-before')
COMMIT_FAULTS = ('commit-fail', 'crash-before', 'crash-after')


# functions the properties' anchors name as the home of a retry mechanism;
# a statement is labelled with the innermost of them on the Python stack
RETRY_HOMES = ('_set_allocations', '_set_aggregates', '_trait_sync',
               '_resource_classes_sync')


def stack_label():
    import sys
    f = sys._getframe(2)
    n = 0
    while f is not None and n < 120:
        name = f.f_code.co_name
        if name in RETRY_HOMES:
            return name
        f = f.f_back
        n += 1
    return ''


class Task(object):
    """One in-flight request."""

    def __init__(self, idx, fn, threaded=True):
        self.idx = idx
        self.fn = fn
        self.threaded = threaded
        self.sem = threading.Semaphore(0)
        self.state = 'new'   # new parked running done crashed error
        self.at = None       # kind of yield point it is parked at
        self.conns = []      # DBAPI connections checked out by this task
        self.nops = 0        # ordinal of the next statement/commit
        self.ntxn = 0        # top-level transactions begun
        self.ops = []        # trace: (kind, verb, table)
        self.result = None
        self.exc = None
        self.thread = None
        self.crashed_at = None
        self.fired = []      # faults that actually fired
        self.fired_ctx = []  # statements of the open transaction, per fault
        self.fired_label = []
        self.cur_txn = []
        self.stmt_labels = []   # per ordinal (dry runs only)
        self.pending_winners = []
        self.data_commits = 0

    def in_txn(self):
        for c in self.conns:
            try:
                if c.in_transaction:
                    return True
            except sqlite3.ProgrammingError:
                pass
        return False


class _Frozen(BaseException):
    pass


class Sim(object):
    """Controller of one simulated run."""

    def __init__(self, world, seed=0, schedule=None, faults=None,
                 trace_sql=True, commit_log=False, clock_start=None):
        self.world = world
        self.rng = _random.Random(seed)
        self.tasks = []
        # schedule: explicit list of task indices (replay) or None (draw)
        self.fixed_schedule = list(schedule) if schedule is not None else None
        self.schedule = []       # what actually happened
        self.sig = []            # (task, txn ordinal) at each resume
        # faults: {(task idx, ordinal): kind}
        self.faults = dict(faults or {})
        self.trace_sql = trace_sql
        self.want_commit_log = commit_log
        self.commit_log = []
        self.ctl = threading.Semaphore(0)
        self.now = clock_start or datetime.datetime(2026, 1, 1, 0, 0, 0)
        self.steps = 0
        self.max_steps = 2000
        self.chooser = None
        self.fault_counts = {}
        self.sleeps = 0
        self.inline_task = None
        self._last_state = None
        # faults placed by statement shape instead of ordinal:
        # [{'verb', 'table', 'kind', 'nth'}] - fires at the nth match
        self.match_faults = []

    # -- clock -------------------------------------------------------------
    def utcnow(self):
        return self.now

    def advance(self, seconds):
        self.now = self.now + datetime.timedelta(seconds=seconds)

    # -- running -----------------------------------------------------------
    def run_inline(self, fn):
        """Run one request on the calling thread (no pre-emption)."""
        t = Task(len(self.tasks), fn, threaded=False)
        self.tasks.append(t)
        _TLS.task = t
        _TLS.sim = self
        t.state = 'running'
        try:
            t.result = fn()
            t.state = 'done'
        finally:
            _TLS.task = None
            _TLS.sim = None
            self._flush_winners(t)
        return t

    def spawn(self, fn):
        t = Task(len(self.tasks), fn, threaded=True)
        self.tasks.append(t)

        def body():
            _TLS.task = t
            _TLS.sim = self
            t.sem.acquire()
            t.state = 'running'
            try:
                t.result = fn()
                t.state = 'done'
            except _Frozen:
                return
            except BaseException:
                if getattr(t, 'dead', False):
                    return
                raise
            except BaseException as e:  # noqa
                t.exc = e
                t.state = 'error'
            finally:
                if t.state != 'crashed':
                    self.ctl.release()
        th = threading.Thread(target=body, name='psim-task-%d' % t.idx,
                              daemon=True)
        t.thread = th
        t.state = 'parked'
        t.at = 'start'
        th.start()
        return t

    def run(self):
        """Drive all spawned tasks to completion under the schedule."""
        pos = 0
        while True:
            runnable = [t for t in self.tasks if t.state == 'parked']
            if not runnable:
                break
            self.steps += 1
            if self.steps > self.max_steps:
                raise HarnessError('step cap exceeded')
            if self.fixed_schedule is not None and pos < len(
                    self.fixed_schedule):
                want = self.fixed_schedule[pos]
                cand = [t for t in runnable if t.idx == want]
                t = cand[0] if cand else runnable[0]
            elif self.chooser is not None:
                t = self.chooser(self, runnable)
            else:
                t = runnable[self.rng.randrange(len(runnable))]
            pos += 1
            self.schedule.append(t.idx)
            self.sig.append((t.idx, t.ntxn))
            t.state = 'running'
            t.sem.release()
            if not self.ctl.acquire(timeout=HANG_TIMEOUT):
                raise HarnessError('task %d hung' % t.idx)
            if t.state in ('done', 'error', 'crashed'):
                self._flush_winners(t)
        for t in self.tasks:
            if t.state == 'error':
                raise HarnessError('task %d raised %r' % (t.idx, t.exc))

    # -- yield points (called on task threads) -------------------------------
    def yield_point(self, task, kind):
        if not task.threaded:
            return
        task.state = 'parked'
        task.at = kind
        self.ctl.release()
        task.sem.acquire()
        task.state = 'running'

    def crash(self, task, where):
        """Process death: roll back + close connections, freeze for ever."""
        task.crashed_at = where
        for c in list(task.conns):
            try:
                c.rollback()
            except Exception:
                pass
            try:
                c.close()
            except Exception:
                pass
        task.conns = []
        task.state = 'crashed'
        if not task.threaded:
            raise HarnessError('crash fault on an inline task')
        task.reap = threading.Semaphore(0)
        self.ctl.release()
        # Frozen: no finally block of the request runs while the run is
        # judged.  Only after the verdict (and right before the database is
        # restored) is the thread reaped, see reap().
        task.reap.acquire()
        raise _Frozen()

    def reap(self, task):
        """Dispose of a frozen thread after the verdict.  Its connections
        are closed, so the unwinding cannot touch the database; the caller
        restores the snapshot right afterwards anyway."""
        if task.state != 'crashed' or task.thread is None:
            return
        task.dead = True
        task.reap.release()
        task.thread.join(10)

    # -- faults ------------------------------------------------------------
    def _count(self, task, kind, ordinal):
        self.fault_counts[kind] = self.fault_counts.get(kind, 0) + 1
        task.fired.append((ordinal, kind))
        # where it struck, judged from the statements of the transaction so
        # far (needed for second faults, whose ordinals no dry run knows)
        task.fired_ctx.append(list(task.cur_txn))
        task.fired_label.append(stack_label())

    def _flush_winners(self, task):
        if not task.pending_winners:
            return
        side = self.world._side()
        task.flushed_winners = getattr(task, 'flushed_winners', []) + \
            list(task.pending_winners)
        try:
            for stmt, params, many in task.pending_winners:
                try:
                    if many:
                        for p in params:
                            try:
                                side.execute(stmt, p)
                            except sqlite3.IntegrityError:
                                pass
                    else:
                        side.execute(stmt, params)
                except sqlite3.IntegrityError:
                    pass
        finally:
            side.close()
            task.pending_winners = []

    def on_statement(self, task, cursor, statement, parameters, many):
        if getattr(task, 'dead', False):
            raise _Frozen()
        verb, table = classify(statement)
        if verb == 'BEGIN':
            top = not task.in_txn()
            if top:
                # winners of an earlier duplicate-key race become visible
                # once the victim's transaction is over.
                self._flush_winners(task)
                self.yield_point(task, 'begin')
                task.ntxn += 1
                task.cur_txn = []
            if self.trace_sql:
                task.ops.append(('B', 'top' if top else 'nested', ''))
            return
        k = task.nops
        task.nops += 1
        task.cur_txn.append((verb, table))
        if self.trace_sql:
            task.ops.append(('S', verb, table))
            task.stmt_labels.append(stack_label())
        kind = self.faults.get((task.idx, k))
        if kind is None and self.match_faults:
            for mf in self.match_faults:
                if mf.get('fired') or mf['verb'] != verb or \
                        mf['table'] != table:
                    continue
                mf['seen'] = mf.get('seen', 0) + 1
                if mf['seen'] == mf.get('nth', 1):
                    mf['fired'] = True
                    kind = mf['kind']
                    break
        if kind is None:
            return
        conn = cursor.connection
        if kind == 'crash-before':
            self._count(task, kind, k)
            self.crash(task, ('S', k))
        elif kind == 'deadlock-keep':
            self._count(task, kind, k)
            raise sqlite3.OperationalError(
                'SIM_DEADLOCK lock wait timeout exceeded (txn kept)')
        elif kind == 'deadlock-rollback':
            self._count(task, kind, k)
            conn.rollback()
            conn.execute('BEGIN')
            raise sqlite3.OperationalError(
                'SIM_DEADLOCK deadlock found, transaction rolled back')
        elif kind == 'dupkey':
            col = DUPKEY_TABLES.get(table)
            if verb != 'INSERT' or col is None:
                return  # not applicable here: fault does not fire
            self._count(task, kind, k)
            task.pending_winners.append(
                _winner_of(table, statement, parameters, many))
            raise sqlite3.IntegrityError(
                'UNIQUE constraint failed: %s.%s' % (table, col))
        elif kind == 'dupkey-id':
            # lost race for a locally computed primary key (custom resource
            # class ids are max(id)+1): another creator took this id for a
            # DIFFERENT name.  The winner row appears when the victim's
            # transaction has ended.
            m = re.match(r'\s*INSERT\s+INTO\s+"?(\w+)"?\s*\(([^)]*)\)',
                         statement, re.I)
            if verb != 'INSERT' or not m or many:
                return
            cols = [c.strip().strip('"') for c in m.group(2).split(',')]
            if 'id' not in cols or 'name' not in cols:
                return
            self._count(task, kind, k)
            params = list(parameters)
            the_id = params[cols.index('id')]
            params[cols.index('name')] = 'CUSTOM_RACE_WINNER_%s' % the_id
            task.pending_winners.append((statement, tuple(params), False))
            raise sqlite3.IntegrityError(
                'UNIQUE constraint failed: %s.id' % table)
        elif kind == 'connlost':
            self._count(task, kind, k)
            conn.rollback()
            raise sqlite3.OperationalError('SIM_CONNLOST server has gone away')
        elif kind == 'dberror':
            self._count(task, kind, k)
            raise sqlite3.OperationalError('SIM_DBERROR generic server error')
        else:
            raise HarnessError('unknown statement fault %r' % kind)

    def before_commit(self, task, dbapi_conn):
        k = task.nops
        task.nops += 1
        task._commit_ord = k
        if self.trace_sql:
            task.ops.append(('C', '', ''))
            task.stmt_labels.append('')
        kind = self.faults.get((task.idx, k))
        if kind is None:
            return
        if kind == 'crash-before':
            self._count(task, kind, k)
            self.crash(task, ('C-', k))
        elif kind == 'commit-fail':
            self._count(task, kind, k)
            dbapi_conn.rollback()
            raise sqlite3.OperationalError('SIM_DBERROR commit rejected')
        elif kind == 'crash-after':
            task._crash_after = True
        elif kind in STMT_FAULTS:
            return  # statement fault planned on a commit ordinal: n/a
        else:
            raise HarnessError('unknown commit fault %r' % kind)

    def after_commit(self, task, dbapi_conn):
        if not task.in_txn():
            self._flush_winners(task)
            if self.want_commit_log:
                self._log_commit(task)
        if getattr(task, '_crash_after', False):
            task._crash_after = False
            self._count(task, 'crash-after', task._commit_ord)
            self.crash(task, ('C+', task._commit_ord))

    def after_rollback(self, task, dbapi_conn):
        if self.trace_sql:
            task.ops.append(('R', '', ''))

    def _log_commit(self, task):
        from psim import dump
        st = dump.cas_state(self.world)
        changed = st != self._last_state
        self._last_state = st
        if changed:
            task.data_commits += 1
        self.commit_log.append({'task': task.idx, 'changed': changed,
                                'state': st})

    def prime_commit_log(self):
        from psim import dump
        self._last_state = dump.cas_state(self.world)

    # -- sleep inside wrap_db_retry ------------------------------------------
    def on_sleep(self, task, seconds):
        self.sleeps += 1
        self.advance(seconds)
        if task is not None and not task.in_txn():
            self.yield_point(task, 'sleep')


class _TLSType(threading.local):
    task = None
    sim = None


_TLS = _TLSType()


def current():
    return _TLS.sim, _TLS.task


# --------------------------------------------------------------------------
# installation (once per process / engine)
# --------------------------------------------------------------------------
class _SimTime(object):
    """Stands in for the ``time`` module inside oslo_db.api."""

    def __init__(self, real):
        self._real = real

    def sleep(self, seconds):
        sim, task = current()
        if sim is None:
            return
        sim.on_sleep(task, seconds)

    def __getattr__(self, name):
        return getattr(self._real, name)


_INSTALLED = False


def install(world):
    """Attach the seams to the world's engine.  Idempotent."""
    global _INSTALLED
    if _INSTALLED:
        return
    _INSTALLED = True
    from sqlalchemy import event
    engine = world.engine
    dialect = engine.dialect

    @event.listens_for(engine, 'checkout')
    def _checkout(dbapi_conn, rec, proxy):
        sim, task = current()
        if task is not None:
            if getattr(task, 'dead', False):
                raise _Frozen()
            task.conns.append(dbapi_conn)

    @event.listens_for(engine, 'checkin')
    def _checkin(dbapi_conn, rec):
        sim, task = current()
        if task is not None and dbapi_conn is not None:
            try:
                task.conns.remove(dbapi_conn)
            except ValueError:
                pass

    @event.listens_for(engine, 'do_execute')
    def _do_execute(cursor, statement, parameters, context):
        sim, task = current()
        if sim is not None:
            sim.on_statement(task, cursor, statement, parameters, False)
        return None

    @event.listens_for(engine, 'do_executemany')
    def _do_executemany(cursor, statement, parameters, context):
        sim, task = current()
        if sim is not None:
            sim.on_statement(task, cursor, statement, parameters, True)
        return None

    orig_commit = dialect.do_commit
    orig_rollback = dialect.do_rollback
    orig_is_disconnect = dialect.is_disconnect

    def do_commit(dbapi_connection):
        sim, task = current()
        if sim is None:
            return orig_commit(dbapi_connection)
        sim.before_commit(task, dbapi_connection)
        orig_commit(dbapi_connection)
        sim.after_commit(task, dbapi_connection)

    def do_rollback(dbapi_connection):
        sim, task = current()
        orig_rollback(dbapi_connection)
        if sim is not None:
            sim.after_rollback(task, dbapi_connection)

    def is_disconnect(e, connection, cursor):
        if 'SIM_CONNLOST' in str(e):
            return True
        return orig_is_disconnect(e, connection, cursor)

    dialect.do_commit = do_commit
    dialect.do_rollback = do_rollback
    dialect.is_disconnect = is_disconnect

    # oslo.db public filter registry: the emulated MySQL personalities.
    from oslo_db import exception as db_exc
    from oslo_db.sqlalchemy import exc_filters
    from sqlalchemy import exc as sqla_exc

    @exc_filters.filters('sqlite', sqla_exc.OperationalError,
                         r'.*SIM_DEADLOCK.*')
    def _sim_deadlock(error, match, engine_name, is_disconnect):
        raise db_exc.DBDeadlock(error)
    # more specific filters must be tried first: put ours in front.
    reg = exc_filters._registry['sqlite'][sqla_exc.OperationalError]
    ours = [x for x in reg if x[0] is _sim_deadlock]
    rest = [x for x in reg if x[0] is not _sim_deadlock]
    reg[:] = ours + rest

    # the retry decorator's sleep
    import oslo_db.api as oslo_db_api
    import time as _time
    oslo_db_api.time = _SimTime(_time)

    # the clock
    from oslo_utils import timeutils

    timeutils._override_time = _ClockList([None])


class _ClockList(list):
    """timeutils pops from override_time when it is a list-like; we always
    answer with the simulated clock."""

    def pop(self, index=0):
        sim, task = current()
        if sim is not None:
            return sim.now
        return datetime.datetime(2026, 1, 1)

    def __bool__(self):
        return True


# -- seeded uuid4 / random ----------------------------------------------------
_real_uuid4 = _uuid.uuid4
_uuid_rng = _random.Random(0)


def _seeded_uuid4():
    return _uuid.UUID(int=_uuid_rng.getrandbits(128), version=4)


def set_debug_logging(on):
    """The deployment's log level ([DEFAULT] debug): what LOG.isEnabledFor
    answers inside the service.  No handler is attached, so nothing is
    formatted or written."""
    import logging
    root = logging.getLogger()
    if on:
        # enabled, and swallowed: nothing is formatted or written
        root.handlers[:] = [logging.NullHandler()]
        for name in list(logging.root.manager.loggerDict):
            lg = logging.root.manager.loggerDict[name]
            if isinstance(lg, logging.Logger) and lg.handlers:
                lg.handlers[:] = []
        root.setLevel(logging.DEBUG)
        logging.disable(logging.NOTSET)
    else:
        # (the harness otherwise runs with logging switched off altogether)
        logging.disable(logging.CRITICAL)


def debug_logging_for(seed):
    return seed % 6 == 1


def seed_process(seed):
    """Seed every PRNG the code under test can see."""
    import random
    random.seed(seed)
    _uuid_rng.seed(seed ^ 0x5EED)
    _uuid.uuid4 = _seeded_uuid4
