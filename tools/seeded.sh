#!/bin/bash
# usage: tools/seeded.sh verify <id>         confirm demo/tests in a scratch worktree
#        tools/seeded.sh run <id> <PROP>...  run quick checks against the patch, in a scratch
#                                            worktree selected with PSIM_REPO (leaves /repo alone)
#        tools/seeded.sh run-in-repo <id> <PROP>...  the prescribed way: git -C /repo apply,
#                                            run, git -C /repo checkout -- .
set -u
cmd=$1; id=$2; shift 2
d=/verif/seeded/$id
if [ "$cmd" = verify ]; then
  wt=/tmp/wtv-$id
  git -C /repo worktree add -q $wt HEAD || exit 2
  cd $wt
  PYTHONPATH=$wt timeout 600 /venv/bin/python $d/demo.py >/tmp/demo-clean-$id.log 2>&1; c=$?
  git apply $d/patch.diff || { echo "patch does not apply"; git -C /repo worktree remove --force $wt; exit 2; }
  PYTHONPATH=$wt timeout 600 /venv/bin/python $d/demo.py >/tmp/demo-patched-$id.log 2>&1; p=$?
  t=$(PYTHONPATH=$wt timeout 1800 /venv/bin/python -m pytest -q -p no:cacheprovider --timeout=900 --continue-on-collection-errors 2>&1 | tail -1)
  cd /; git -C /repo worktree remove --force $wt
  echo "$id demo clean exit=$c patched exit=$p tests: $t"
elif [ "$cmd" = run ]; then
  wt=/tmp/wtr-$id
  git -C /repo worktree add -q $wt HEAD || exit 2
  (cd $wt && git apply $d/patch.diff) || { echo "patch does not apply"; git -C /repo worktree remove --force $wt; exit 2; }
  for prop in "$@"; do
    (cd /verif && PSIM_REPO=$wt PSIM_SCRATCH=1 PSIM_SCALE=${PSIM_SCALE:-1} timeout 1800 /venv/bin/python -m psim.check $prop --tier quick 2>&1 | grep -E "VIOLATION|rule=|done property|HARNESS" | head -8)
  done
  git -C /repo worktree remove --force $wt
elif [ "$cmd" = run-in-repo ]; then
  cd /repo && git diff --quiet || { echo "/repo dirty"; exit 2; }
  git -C /repo apply $d/patch.diff || exit 2
  for prop in "$@"; do
    (cd /verif && PSIM_SCRATCH=1 PSIM_SCALE=${PSIM_SCALE:-1} timeout 1800 /venv/bin/python -m psim.check $prop --tier quick 2>&1 | grep -E "VIOLATION|rule=|done property|HARNESS" | head -8)
  done
  git -C /repo checkout -- .
fi
