"""Regenerate the table of section 9 of DESIGN.md from seeded/*/meta.json."""
import json
import os
import re

HERE = os.path.dirname(os.path.dirname(os.path.abspath(__file__)))


def rows():
    out = []
    for d in sorted(os.listdir(os.path.join(HERE, 'seeded'))):
        p = os.path.join(HERE, 'seeded', d, 'meta.json')
        if not os.path.exists(p):
            continue
        m = json.load(open(p))
        cell = lambda s: str(s).replace('|', '\\|').replace('\n', ' ')
        out.append('| %s | %s | %s | %s |' % (
            m['id'], cell(m['breaks_property']),
            cell(m['needs_to_manifest']), cell(m['result'])))
    return out


def main():
    path = os.path.join(HERE, 'DESIGN.md')
    lines = open(path).read().split('\n')
    start = [i for i, l in enumerate(lines)
             if l.startswith('| Id | Property |')][0]
    end = start + 2
    while end < len(lines) and lines[end].startswith('|'):
        end += 1
    lines[start + 2:end] = rows()
    open(path, 'w').write('\n'.join(lines))
    print('%d rows' % len(rows()))


if __name__ == '__main__':
    main()
