"""Regenerates MANIFEST.json from the table below (kept next to the code so
the manifest never drifts from what psim.check implements)."""
import json

BASELINE = ("cd /repo && /venv/bin/python -m pytest -ra -q -p no:cacheprovider "
            "--timeout=900 --continue-on-collection-errors")

CHECKS = {
 'C01': ('exploration', 'seeded history simulation + capacity/over-commit-ledger invariants',
         'Seeded sequential histories through the real HTTP pipeline, biased to allocation traffic on tight inventories; after every accepted allocation write the capacity/unit invariant is evaluated on the stored rows and an over-commit ledger is kept over the history. Exploration is the right level: the property quantifies over histories and inputs, which are sampled, not enumerated.', '3/C01'),
 'C02': ('exploration', 'seeded two-step histories: GET /allocation_candidates then claim of each returned entry from a snapshot',
         'The claim obligation is a history (candidate returned at event i, accepted by the write at event i+1 with no write in between): for generated states (nested + sharing providers, partially used inventories) and generated queries at microversions 1.10-1.39 every returned entry is sent unchanged as PUT /allocations of a fresh consumer from a snapshot of the same state and must be accepted; decomposition against the query (mappings from 1.34) and provider summaries against the dump are checked for every entry. No independent notion of which candidates should exist is used (C03).', '3/C02'),
 'C04': ('exploration', 'seeded history simulation + before/after dump equality on every rejection',
         'Seeded histories with a high rate of writes built to be rejected at a chosen stage; for every response >= 400 the raw table dump before and after must be equal (only projects/users/consumer types may be added), for every accepted multi-entity write the stored state must equal the reference model.', '3/C04'),
 'C05': ('exploration', 'seeded transaction-granularity schedules of concurrent requests + commit-order CAS linearisation',
         'Two or three generation-carrying / self-deriving provider writes run concurrently on real threads under a seeded baton-passing scheduler that pre-empts only before a top-level BEGIN (exactly the granularity the property names). A commit log (provider generations after every commit) linearises the history by commit order against the compare-and-swap specification; the successful requests are additionally replayed serially in every permutation from the start snapshot.', '3/C05'),
 'C06': ('exploration', 'seeded transaction-granularity schedules of concurrent requests + commit-order consumer-CAS linearisation',
         'Concurrent PUT/POST /allocations and POST /reshaper (>= 1.28) touching one consumer, new or existing, with carried generations null/g/g-1/g+1/0; consumer compare-and-swap specification linearised by commit order from the commit log, final allocations == last success in commit order, serial-permutation replay.', '3/C06'),
 'C07': ('exploration', 'seeded transaction-granularity schedules + serial-permutation replay (serialisability oracle)',
         'Batches of 2-3 allocation writes and generation-guarded inventory/trait/aggregate updates racing for one inventory, provider or consumer; oracle: some permutation of the successful requests, replayed from the start snapshot, gives each success and the same stored state; failures have no net effect; no over-commit that the serial order would not have.', '3/C07'),
 'C08': ('exploration', 'seeded history simulation + referential invariant + model verdict on DELETE',
         'Seeded histories mixing creation, replacement and deletion; the referential invariant is evaluated on the dump after every request and every DELETE is compared with the reference model (refused exactly when in use, nothing changed when refused).', '3/C08'),
 'C09': ('exploration', 'seeded history simulation + forest invariant + model verdict',
         'Seeded histories of provider create/re-parent/un-parent/delete over 8 providers on both sides of 1.14 and 1.37; forest invariant on the rows after every request, model verdict for every request, API view compared in read bursts.', '3/C09'),
 'C10': ('exploration', 'seeded history simulation + generation maps before/after each request',
         'Seeded histories over all write routes; provider and consumer generation maps are compared before and after each request against must-move / may-move / must-not-move sets.', '3/C10'),
 'C11': ('exploration', 'refinement of seeded histories against an executable reference model',
         'Every request of a seeded history is executed by the real service and by a small reference model written from the API reference; status, error code, body and the complete stored state are compared after every step, plus cross-view read bursts.', '3/C11'),
 'C12': ('exploration', 'seeded history simulation + consumer<=>allocations invariant',
         'Seeded consumer life-cycle histories in all four microversion bands with random incomplete-consumer ids; consumer <=> allocations invariant after every request, attributes against the model, null-generation follow-up writes.', '3/C12'),
 'C20': ('exploration', 'simulator-owned PRNG: limit x randomisation x seed sweep against the unlimited result',
         'The subject of the property is a source of nondeterminism (random.sample / random.shuffle in limit_results) which the simulator owns: for generated (state, query) pairs the unlimited result M is computed with randomisation off, then every limit 1..|M|+1 under both settings of randomize_allocation_candidates and 8 PRNG seeds is compared against M (size, membership, distinctness, summaries, determinism when off, permutation when on).', '3/C20'),
 'C17': ('fault_enumeration', 'single-fault enumeration at every SQL statement and commit (DBAPI-seam fault injector) + twin/pre-state oracle',
         'For each corpus entry (a generated write request in a generated state, all write routes, plus start-up synchronisation from empty/partial/synced databases) a dry run records every SQL statement and commit; the request is then re-executed once per (ordinal, fault kind): retryable deadlock with and without database-side rollback, duplicate-key race, lost connection, generic error, failed commit. Outcome must be applied-exactly-once (== fault-free twin) or a clean failure (== pre-state, well-formed JSON error), inside the must-retry windows it must be the twin; afterwards the same request re-issued fault-free must behave like the twin. Thorough adds pairs of faults.', '3/C17'),
 'C18': ('fault_enumeration', 'crash-point enumeration (thread frozen, connections rolled back) + invariants on the surviving state',
         'Same corpus; the worker dies before every statement and before/after every commit (the request thread is frozen for ever, its connections rolled back and closed). The surviving state must satisfy capacity, referential and forest invariants, be wholly the pre-state or wholly the complete result apart from auxiliary records and consumers without allocations, and the restarted service must serve a probe.', '3/C18'),
 'C19': ('exploration', 'seeded histories of name operations with simulated restarts from empty/partial/synced databases',
         'Histories of trait / resource-class create, rename, delete requests with legal, illegal, boundary-length and standard names, interleaved with simulated restarts, starting from an empty, partially synchronised (random subset of standard names missing) or fully synchronised database; standard-set/identifier/name invariants after every step, restart idempotence, plus start-up sync under faults.', '3/C19'),
}

NOTE = ('Trusted: CPython, SQLite, SQLAlchemy, oslo.*, webob, Routes, jsonschema as installed; the simulator (psim) and, where used, the reference model psim/model.py. '
        'The database server is an SQLite stub; isolation is supplied by the scheduler at transaction granularity.')

NOT_APPLICABLE = [
 ('C03', 'pure function of (database state, query): no schedule, fault, clock or history order for a simulator to control; deciding it needs a brute-force candidate enumerator (differential testing), which is another technique family'),
 ('C13', 'pure function of (database state, query string) evaluated in one read transaction; nothing to schedule or to fail'),
 ('C14', 'stateless version x route x method table walk; no nondeterminism to explore'),
 ('C15', 'grammar-based fuzzing of single requests; the property ranges over malformed inputs, not over schedules or faults (no-5xx is still asserted inside every simulated run)'),
 ('C16', 'exhaustive route x caller x policy matrix of deterministic single requests; no nondeterminism to explore'),
]

def main(claimed=None):
    checks = []
    for pid in sorted(CHECKS):
        if claimed is not None and pid not in claimed:
            continue
        level, tech, text, ref = CHECKS[pid]
        checks.append({
            'property_id': pid,
            'quick_cmd': 'cd /verif && /venv/bin/python -m psim.check %s --tier quick' % pid,
            'thorough_cmd': 'cd /verif && /venv/bin/python -m psim.check %s --tier thorough' % pid,
            'evidence_file': '/verif/evidence/%s.json' % pid,
            'replay_cmd_template': 'cd /verif && /venv/bin/python -m psim.replay {path}',
            'engine': 'psim',
            'level_claimed': {'category': level, 'text': text, 'design_ref': 'DESIGN.md section ' + ref},
            'level_note': NOTE,
            'technique': 'deterministic simulation: ' + tech,
        })
    claimed_ids = {c['property_id'] for c in checks}
    na = [{'property_id': p, 'reason': r} for p, r in NOT_APPLICABLE]
    for pid in ['C%02d' % i for i in range(1, 21)]:
        if pid not in claimed_ids and pid not in {p for p, _ in NOT_APPLICABLE}:
            na.append({'property_id': pid, 'reason': 'check not built yet (in progress); see DESIGN.md section 3'})
    m = {
        'version': 1,
        'setup_cmd': 'cd /verif && /venv/bin/python -m psim.selftest smoke',
        'hooks': {
            'guard': 'PLACEMENT_VERIF',
            'enable': 'no hook in /repo is needed: all seams are SQLAlchemy engine events, dialect.do_commit/do_rollback/is_disconnect, oslo.db exc_filters registry, oslo_db.api.time, timeutils override, random/uuid4 seeding; installed by psim.seams inside the check process only',
            'baseline_off_cmd': BASELINE,
            'source_commits': [],
            'add_only': True,
        },
        'engines': [{
            'name': 'psim', 'path': '/verif/psim',
            'serves_properties': sorted(claimed_ids),
            'kind_free_text': 'deterministic simulator: whole placement service in-process, seeded baton-passing scheduler at transaction granularity, DBAPI-seam fault injector, crash-freeze, simulated clock, reference model, delta-debugging minimiser, explicit replay files',
        }],
        'checks': checks,
        'not_applicable': na,
        'notes': 'See DESIGN.md. Checks import /repo working tree directly (editable install) so they rebuild from current sources. known_findings.txt lists fixed defects and recorded findings.',
    }
    json.dump(m, open('/verif/MANIFEST.json', 'w'), indent=1)

if __name__ == '__main__':
    main()
